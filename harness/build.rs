// Generates the struct shapes for C20: for both derive macros, every word of length 1..4 over
// field kinds {A: ProbeA, B: ProbeB, N: a nested derived set of (ProbeA, ProbeB)} and a few
// longer shapes (5..8 fields), each with the derived `update` and a hand-written, fully
// flattened sequence of calls.
use std::fmt::Write;

fn words(max: usize) -> Vec<String> {
    let mut out = Vec::new();
    let mut cur: Vec<String> = vec![String::new()];
    for _ in 0..max {
        let mut next = Vec::new();
        for w in &cur {
            for k in ['A', 'B', 'N'] {
                let mut w2 = w.clone();
                w2.push(k);
                next.push(w2);
            }
        }
        out.extend(next.iter().cloned());
        cur = next;
    }
    out
}

fn main() {
    let mut shapes = words(4);
    for w in [
        "ABABA", "AAAAA", "NAAAA", "AAAAN", "BNBNB", "ABNABN", "AABBNN", "NNNNNN", "ABABABA", "BBBBBBN", "NABABAB", "ABNABNAB", "AAAABBBB", "NBNBNBNB",
    ] {
        shapes.push(w.to_string());
    }
    let mut s = String::new();
    for (mac, suffix, probe_a, probe_b, nested, env_ty, trait_path) in [
        ("AgentSet", "S", "ProbeA", "ProbeB", "NestedS", "bourse_de::Env", "bourse_de::agents::AgentSet"),
        ("MarketAgentSet", "M", "MProbeA", "MProbeB", "NestedM", "bourse_de::MarketEnv<2, 3>", "bourse_de::agents::MarketAgentSet"),
    ] {
        writeln!(s, "#[derive({mac})]\npub struct {nested} {{ pub x: {probe_a}, pub y: {probe_b} }}").unwrap();
        for (i, w) in shapes.iter().enumerate() {
            let name = format!("Shape{suffix}{i}");
            writeln!(s, "#[derive({mac})]\npub struct {name} {{").unwrap();
            for (j, k) in w.chars().enumerate() {
                let ty = match k {
                    'A' => probe_a,
                    'B' => probe_b,
                    _ => nested,
                };
                writeln!(s, "    pub f{j}: {ty},").unwrap();
            }
            writeln!(s, "}}").unwrap();
            // constructor: tags in flattened declaration order
            writeln!(s, "fn make_{name}(log: &Log) -> {name} {{\n    {name} {{").unwrap();
            let mut tag = 1;
            for (j, k) in w.chars().enumerate() {
                match k {
                    'A' => {
                        writeln!(s, "        f{j}: {probe_a}::new({tag}, log),").unwrap();
                        tag += 1;
                    }
                    'B' => {
                        writeln!(s, "        f{j}: {probe_b}::new({tag}, log),").unwrap();
                        tag += 1;
                    }
                    _ => {
                        writeln!(s, "        f{j}: {nested} {{ x: {probe_a}::new({tag}, log), y: {probe_b}::new({}, log) }},", tag + 1).unwrap();
                        tag += 2;
                    }
                }
            }
            writeln!(s, "    }}\n}}").unwrap();
            // derived
            writeln!(s, "fn derived_{name}<R: rand::RngCore>(a: &mut {name}, env: &mut {env_ty}, rng: &mut R) {{\n    {trait_path}::update(a, env, rng);\n}}").unwrap();
            // hand-written flattened
            writeln!(s, "fn hand_{name}<R: rand::RngCore>(a: &mut {name}, env: &mut {env_ty}, rng: &mut R) {{").unwrap();
            for (j, k) in w.chars().enumerate() {
                match k {
                    'A' | 'B' => writeln!(s, "    a.f{j}.update(env, rng);").unwrap(),
                    _ => writeln!(s, "    a.f{j}.x.update(env, rng);\n    a.f{j}.y.update(env, rng);").unwrap(),
                }
            }
            writeln!(s, "}}").unwrap();
        }
        // registry
        writeln!(s, "pub fn run_all_{suffix}(seeds: &[u64], f: &mut dyn FnMut(&str, &str, u64, Trace, Trace)) {{").unwrap();
        for (i, w) in shapes.iter().enumerate() {
            let name = format!("Shape{suffix}{i}");
            writeln!(
                s,
                "    for &seed in seeds {{ let d = trace_{suffix}(seed, make_{name}, derived_{name}); let h = trace_{suffix}(seed, make_{name}, hand_{name}); f(\"{mac}\", \"{w}\", seed, d, h); }}"
            )
            .unwrap();
        }
        writeln!(s, "}}").unwrap();
    }
    writeln!(s, "pub const N_SHAPES: usize = {};", shapes.len()).unwrap();
    let out = std::path::Path::new(&std::env::var("OUT_DIR").unwrap()).join("c20_gen.rs");
    std::fs::write(out, s).unwrap();
    println!("cargo:rerun-if-changed=build.rs");
}
