// Generates the struct shapes for C20: for both derive macros, every word of length 1..4 over
// field kinds {A: ProbeA, B: ProbeB, N: a nested derived set of (ProbeA, ProbeB)} and a few
// longer shapes (5..8 fields), each with the derived `update` and a hand-written, fully
// flattened sequence of calls.
use std::fmt::Write;

fn words(max: usize) -> Vec<String> {
    let mut out = Vec::new();
    let mut cur: Vec<String> = vec![String::new()];
    for _ in 0..max {
        let mut next = Vec::new();
        for w in &cur {
            for k in ['A', 'B', 'N'] {
                let mut w2 = w.clone();
                w2.push(k);
                next.push(w2);
            }
        }
        out.extend(next.iter().cloned());
        cur = next;
    }
    out
}

fn main() {
    let mut plain = words(4);
    for w in [
        "ABABA", "AAAAA", "NAAAA", "AAAAN", "BNBNB", "ABNABN", "AABBNN", "NNNNNN", "ABABABA", "BBBBBBN", "NABABAB", "ABNABNAB", "AAAABBBB", "NBNBNBNB",
    ] {
        plain.push(w.to_string());
    }
    // nested sets that are LARGER than the set they sit in (T: three members, F: five members)
    // members without run-time state (Z: a unit struct) and a nested set made only of such members (Y)
    for w in ["Z", "ZZ", "AZ", "ZA", "ZB", "AZB", "ZAZ", "NZ", "ZN", "Y", "AY", "YA", "YZ", "ZYB", "AZBZN", "ZZZZZ"] {
        plain.push(w.to_string());
    }
    for w in ["T", "F", "AT", "TA", "BT", "AF", "FA", "ATB", "TT", "NT", "TN", "TF", "ATNB", "AAT", "ABTAB", "AFB", "NFN"] {
        plain.push(w.to_string());
    }
    let mut shapes: Vec<(String, &str)> = plain.iter().map(|w| (w.clone(), "plain")).collect();
    // the same members declared in other syntactic ways (decorations that must not change the meaning)
    for dec in ["field-attributes", "struct-attributes", "visibility", "type-paths", "raw-identifiers", "macro-template", "field-names"] {
        for w in words(3) {
            shapes.push((w, dec));
        }
        for w in ["ABNAB", "NNABABBA"] {
            shapes.push((w.to_string(), dec));
        }
    }
    let mut s = String::new();
    for (mac, suffix, probe_a, probe_b, nested, env_ty, trait_path) in [
        ("AgentSet", "S", "ProbeA", "ProbeB", "NestedS", "bourse_de::Env", "bourse_de::agents::AgentSet"),
        ("MarketAgentSet", "M", "MProbeA", "MProbeB", "NestedM", "bourse_de::MarketEnv<2, 3>", "bourse_de::agents::MarketAgentSet"),
    ] {
        let probe_z = if suffix == "S" { "ProbeZ" } else { "MProbeZ" };
        let nested_z = format!("{nested}Z");
        writeln!(s, "#[derive({mac})]\npub struct {nested_z} {{ pub x: {probe_z}, pub y: {probe_z} }}").unwrap();
        writeln!(s, "#[derive({mac})]\npub struct {nested} {{ pub x: {probe_a}, pub y: {probe_b} }}").unwrap();
        writeln!(s, "#[derive({mac})]\npub struct {nested}3 {{ pub x: {probe_a}, pub y: {probe_b}, pub z: {probe_a} }}").unwrap();
        writeln!(s, "#[derive({mac})]\npub struct {nested}5 {{ pub x: {probe_a}, pub y: {probe_b}, pub z: {probe_a}, pub v: {probe_b}, pub w: {probe_a} }}").unwrap();
        for (i, (w, dec)) in shapes.iter().enumerate() {
            let name = format!("Shape{suffix}{i}");
            let fname = |j: usize| -> String {
                if *dec == "raw-identifiers" {
                    format!("r#{}", ["type", "match", "fn", "loop", "move", "ref", "mod", "use"][j])
                } else if *dec == "field-names" {
                    // neither alphabetical nor uniformly prefixed; leading underscores; upper case; unicode
                    ["zeta", "_hedge", "alpha", "Maker", "__x", "mid_9", "béta", "a0"][(j + i) % 8].to_string() + &format!("{}", if j >= 8 { "2" } else { "" })
                } else {
                    format!("f{j}")
                }
            };
            let nested3 = format!("{nested}3");
            let nested5 = format!("{nested}5");
            let ty_of = |k: char| -> &str {
                match k {
                    'A' => probe_a,
                    'B' => probe_b,
                    'T' => &nested3,
                    'F' => &nested5,
                    'Z' => probe_z,
                    'Y' => &nested_z,
                    _ => nested,
                }
            };
            match *dec {
                "macro-template" => {
                    // the struct comes out of a macro_rules! template that takes the member types as `ty` fragments
                    writeln!(s, "macro_rules! tmpl_{name} {{ ($n:ident; $($f:ident : $t:ty),*) => {{ #[derive({mac})] pub struct $n {{ $(pub $f: $t),* }} }} }}").unwrap();
                    let fields: Vec<String> = w.chars().enumerate().map(|(j, k)| format!("f{j}: {}", ty_of(k))).collect();
                    writeln!(s, "tmpl_{name}!({name}; {});", fields.join(", ")).unwrap();
                }
                _ => {
                    match *dec {
                        "struct-attributes" => writeln!(s, "#[allow(dead_code)]\n#[derive({mac})]\n#[doc = \"decorated\"]\n#[allow(clippy::all)]\npub struct {name} {{").unwrap(),
                        "field-names" => writeln!(s, "#[allow(non_snake_case)]\n#[derive({mac})]\npub struct {name} {{").unwrap(),
                        _ => writeln!(s, "#[derive({mac})]\npub struct {name} {{").unwrap(),
                    }
                    for (j, k) in w.chars().enumerate() {
                        let ty = ty_of(k);
                        match *dec {
                            "field-attributes" => {
                                let attr = ["#[allow(dead_code)]", "#[rustfmt::skip]", "/// documented member", "#[cfg(all())]", "#[doc(hidden)]", "#[cfg_attr(all(), allow(unused))]", "#[allow(clippy::skip)]", "#[rustfmt::skip]"][(j + i) % 8];
                                writeln!(s, "    {attr}\n    pub f{j}: {ty},").unwrap();
                            }
                            "visibility" => {
                                let vis = ["", "pub(crate) ", "pub(super) ", "pub(in crate::c20) "][(j + i) % 4];
                                writeln!(s, "    {vis}f{j}: {ty},").unwrap();
                            }
                            "type-paths" => {
                                let t2 = match (j + i) % 3 {
                                    0 => format!("crate::c20::{ty}"),
                                    1 => format!("self::{ty}"),
                                    _ => format!("({ty})"),
                                };
                                writeln!(s, "    pub f{j}: {t2},").unwrap();
                            }
                            _ => writeln!(s, "    pub {}: {ty},", fname(j)).unwrap(),
                        }
                    }
                    writeln!(s, "}}").unwrap();
                }
            }
            writeln!(s, "#[allow(clippy::all)]").unwrap();
            // constructor: tags in flattened declaration order
            writeln!(s, "fn make_{name}(log: &Log) -> {name} {{\n    {name} {{").unwrap();
            let mut tag = 1;
            for (j, k) in w.chars().enumerate() {
                match k {
                    'A' => {
                        writeln!(s, "        {}: {probe_a}::new({tag}, log),", fname(j)).unwrap();
                        tag += 1;
                    }
                    'B' => {
                        writeln!(s, "        {}: {probe_b}::new({tag}, log),", fname(j)).unwrap();
                        tag += 1;
                    }
                    'Z' => writeln!(s, "        {}: {probe_z},", fname(j)).unwrap(),
                    'Y' => writeln!(s, "        {}: {nested_z} {{ x: {probe_z}, y: {probe_z} }},", fname(j)).unwrap(),
                    'T' => {
                        writeln!(s, "        {}: {nested}3 {{ x: {probe_a}::new({tag}, log), y: {probe_b}::new({}, log), z: {probe_a}::new({}, log) }},", fname(j), tag + 1, tag + 2).unwrap();
                        tag += 3;
                    }
                    'F' => {
                        writeln!(s, "        {}: {nested}5 {{ x: {probe_a}::new({tag}, log), y: {probe_b}::new({}, log), z: {probe_a}::new({}, log), v: {probe_b}::new({}, log), w: {probe_a}::new({}, log) }},", fname(j), tag + 1, tag + 2, tag + 3, tag + 4).unwrap();
                        tag += 5;
                    }
                    _ => {
                        writeln!(s, "        {}: {nested} {{ x: {probe_a}::new({tag}, log), y: {probe_b}::new({}, log) }},", fname(j), tag + 1).unwrap();
                        tag += 2;
                    }
                }
            }
            writeln!(s, "    }}\n}}").unwrap();
            // derived
            let (gen_params, env_ty) = if suffix == "M" { (", const MM: usize, const NN: usize", "bourse_de::MarketEnv<MM, NN>") } else { ("", env_ty) };
            writeln!(s, "fn derived_{name}<R: rand::RngCore{gen_params}>(a: &mut {name}, env: &mut {env_ty}, rng: &mut R) {{\n    {trait_path}::update(a, env, rng);\n}}").unwrap();
            // hand-written flattened
            writeln!(s, "fn hand_{name}<R: rand::RngCore{gen_params}>(a: &mut {name}, env: &mut {env_ty}, rng: &mut R) {{").unwrap();
            for (j, k) in w.chars().enumerate() {
                match k {
                    'A' | 'B' | 'Z' => writeln!(s, "    a.{}.update(env, rng);", fname(j)).unwrap(),
                    'Y' => writeln!(s, "    a.{0}.x.update(env, rng);\n    a.{0}.y.update(env, rng);", fname(j)).unwrap(),
                    'T' => writeln!(s, "    a.{0}.x.update(env, rng);\n    a.{0}.y.update(env, rng);\n    a.{0}.z.update(env, rng);", fname(j)).unwrap(),
                    'F' => writeln!(s, "    a.{0}.x.update(env, rng);\n    a.{0}.y.update(env, rng);\n    a.{0}.z.update(env, rng);\n    a.{0}.v.update(env, rng);\n    a.{0}.w.update(env, rng);", fname(j)).unwrap(),
                    _ => writeln!(s, "    a.{0}.x.update(env, rng);\n    a.{0}.y.update(env, rng);", fname(j)).unwrap(),
                }
            }
            writeln!(s, "}}").unwrap();
        }
        // registry
        writeln!(s, "pub fn run_all_{suffix}(seeds: &[u64], f: &mut dyn FnMut(&str, &str, u64, Trace, Trace)) {{").unwrap();
        for (i, (w, dec)) in shapes.iter().enumerate() {
            let name = format!("Shape{suffix}{i}");
            let w = if *dec == "plain" { w.clone() } else { format!("{w} [{dec}]") };
            if suffix == "M" {
                writeln!(
                    s,
                    "    for &seed in seeds {{ let d = trace_M::<_, 2, 3>(seed, make_{name}, derived_{name}); let h = trace_M::<_, 2, 3>(seed, make_{name}, hand_{name}); f(\"{mac}\", \"{w}\", seed, d, h); }}"
                )
                .unwrap();
                // other market shapes (one asset and one level; three assets and NO published level) for the small plain shapes
                if *dec == "plain" && w.chars().count() <= 3 {
                    for (mm, nn) in [(1, 1), (3, 0)] {
                        writeln!(
                            s,
                            "    for &seed in seeds {{ let d = trace_M::<_, {mm}, {nn}>(seed, make_{name}, derived_{name}); let h = trace_M::<_, {mm}, {nn}>(seed, make_{name}, hand_{name}); f(\"{mac}\", \"{w} on MarketEnv<{mm},{nn}>\", seed, d, h); }}"
                        )
                        .unwrap();
                    }
                }
            } else {
                writeln!(
                    s,
                    "    for &seed in seeds {{ let d = trace_{suffix}(seed, make_{name}, derived_{name}); let h = trace_{suffix}(seed, make_{name}, hand_{name}); f(\"{mac}\", \"{w}\", seed, d, h); }}"
                )
                .unwrap();
            }
        }
        writeln!(s, "}}").unwrap();
    }
    writeln!(s, "pub const N_SHAPES: usize = {};", shapes.len()).unwrap();
    let out = std::path::Path::new(&std::env::var("OUT_DIR").unwrap()).join("c20_gen.rs");
    std::fs::write(out, s).unwrap();
    println!("cargo:rerun-if-changed=build.rs");
}
