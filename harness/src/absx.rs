//! Engine E2: explicit-state closure over abstract live-book states with stateright
//! (DESIGN §2.3). The model is the reference engine; a state carries a representative
//! concrete history; `next_state` replays that history plus the action on a fresh real
//! `OrderBook` and judges the transition with the same monitors as E1.

use crate::monitors::*;
use crate::ops::*;
use crate::refmodel::RefModel;
use crate::report::Outcome;
use crate::seqx::{judge, replay_tracked, Fail, Monitors, RunCfg, Witness};
use crate::snap::*;
use crate::util;
use serde_json::json;
use stateright::{Checker, Model, Property};
use std::collections::BTreeMap;
use std::hash::{Hash, Hasher};
use std::sync::atomic::{AtomicU64, Ordering};
use std::sync::{Arc, Mutex};

const LEVELS: usize = 3;

#[derive(Clone, Debug, PartialEq, Eq, Hash)]
pub struct Key {
    trading: bool,
    bids: Vec<(u32, u32)>,
    asks: Vec<(u32, u32)>,
    /// created-but-unplaced order: (bid, price, vol)
    unplaced: Option<(bool, Option<u32>, u32)>,
    /// which dead classes exist: filled, cancelled, rejected
    dead: [bool; 3],
    bad: bool,
    /// tie mode only: per resting order (priority order, bids then asks) how long ago it was
    /// queued, clipped: 0 = at the current clock value, .., cap = "at least cap ticks ago".
    /// Finer than the behaviour of a correct book needs (which depends on queue order only) so
    /// that states whose hidden queue stamps differ relative to the clock are NOT merged.
    ages: Vec<u8>,
    /// reload mode only: 0 = no snapshot reload among the last `reload_depth` operations of the
    /// representative history, k > 0 = the k-th most recent operation was a reload. States reached
    /// through a recent reload are kept apart so that every action (and the sweep) is also executed
    /// on a book that has just been rebuilt from its snapshot.
    reload_age: u8,
    /// suffix mode only: the classes (placement / cancel / modify / toggle / reload) of the last
    /// `suffix_k` operations of the representative history. A correct book's future depends on the
    /// live book alone; state a defective one carries from one operation to the next (memos, lazily
    /// refreshed caches) depends on how the book was entered, so states entered differently are
    /// kept apart and each is expanded.
    suffix: Vec<u8>,
}

#[derive(Clone, Debug)]
pub struct AbsState {
    pub key: Key,
    pub hist: Vec<Step>,
    pub model: RefModel,
}
impl PartialEq for AbsState {
    fn eq(&self, o: &Self) -> bool {
        self.key == o.key
    }
}
impl Eq for AbsState {}
impl Hash for AbsState {
    fn hash<H: Hasher>(&self, h: &mut H) {
        self.key.hash(h)
    }
}

/// Actions are expressed by queue rank / class representative so that they are a function of the key.
#[derive(Clone, Debug, PartialEq, Eq, Hash)]
pub enum AbsAct {
    Limit { bid: bool, price: u32, vol: u32 },
    Market { bid: bool, vol: u32 },
    Create { bid: bool, price: Option<u32>, vol: u32 },
    PlaceUnplaced,
    CancelRank { bid: bool, rank: usize },
    ModifyRank { bid: bool, rank: usize, price: Option<u32>, vol: Option<u32> },
    /// redundant requests against a representative of a dead class (0 filled, 1 cancelled, 2 rejected, 3 unplaced)
    CancelDead { class: usize },
    ModifyDead { class: usize },
    PlaceDead { class: usize },
    Enable,
    Disable,
    /// serialise, deserialise, continue on the reloaded object
    Reload,
}

#[derive(Clone)]
pub struct Absx {
    pub profile: Profile,
    pub monitors: Monitors,
    pub max_rest: usize,
    pub max_vol: u32,
    pub with_modify: bool,
    pub modify_vols: Vec<u32>,
    pub with_toggles: bool,
    pub with_create: bool,
    pub with_redundant: bool,
    /// clock advance before each action is a choice in {0,+1} (C05) instead of always +1
    pub ties: bool,
    /// > 0: snapshot reload is an action, and states within this many operations after a reload are kept apart
    pub reload_depth: u8,
    /// > 0: the classes of the last `suffix_k` operations are part of the key
    pub suffix_k: usize,
    pub tie_transitions: Arc<AtomicU64>,
    /// enumerate the actions of every state in reverse order (second sweep: BFS then settles on
    /// other representative histories for most keys)
    pub reversed: bool,
    pub transitions: Arc<AtomicU64>,
    pub cut: Arc<AtomicU64>,
    pub fails: Arc<Mutex<BTreeMap<String, Witness>>>,
    /// vacuity guards counted on executed transitions (path-dependent facts cannot be `sometimes` properties of key-equal states)
    pub partial_head_cancels: Arc<AtomicU64>,
    pub crossing_modifies: Arc<AtomicU64>,
    /// transitions executed on a book reloaded at most `reload_depth` operations earlier
    pub after_reload: Arc<AtomicU64>,
}

fn act_class(a: &AbsAct) -> u8 {
    match a {
        AbsAct::Limit { .. } | AbsAct::Market { .. } | AbsAct::Create { .. } | AbsAct::PlaceUnplaced | AbsAct::PlaceDead { .. } => 0,
        AbsAct::CancelRank { .. } | AbsAct::CancelDead { .. } => 1,
        AbsAct::ModifyRank { .. } | AbsAct::ModifyDead { .. } => 2,
        AbsAct::Enable | AbsAct::Disable => 3,
        AbsAct::Reload => 4,
    }
}

fn key_of(m: &RefModel, bad: bool, ties: Option<usize>, with_dead: bool, reload_age: u8, suffix: Vec<u8>) -> Key {
    let (trading, bids, asks) = m.live_key();
    let ages = match ties {
        None => vec![],
        Some(cap) => {
            let mut v = Vec::new();
            for bid in [true, false] {
                for r in m.queue(bid) {
                    v.push((m.t - r.qtime).min(cap as u64) as u8);
                }
            }
            v
        }
    };
    let unplaced = m.orders.iter().find(|o| o.status == NEW).map(|o| (o.bid, o.price, o.vol));
    // dead classes only matter when redundant requests against them are among the actions
    let dead = if with_dead {
        [
            m.orders.iter().any(|o| o.status == FILLED),
            m.orders.iter().any(|o| o.status == CANCELLED),
            m.orders.iter().any(|o| o.status == REJECTED),
        ]
    } else {
        [false; 3]
    };
    Key { trading, bids, asks, unplaced, dead, bad, ages, reload_age, suffix }
}

fn dead_rep(m: &RefModel, class: usize) -> Option<usize> {
    let st = [FILLED, CANCELLED, REJECTED, NEW][class];
    m.orders.iter().find(|o| o.status == st).map(|o| o.id)
}

impl Absx {
    fn tie_cap(&self) -> Option<usize> {
        if self.ties {
            Some(self.max_rest)
        } else {
            None
        }
    }

    fn concretise(&self, m: &RefModel, dt: u8, a: &AbsAct) -> Option<Step> {
        let op = match a {
            AbsAct::Limit { bid, price, vol } => Op::Limit { bid: *bid, price: *price, vol: *vol },
            AbsAct::Market { bid, vol } => Op::Market { bid: *bid, vol: *vol },
            AbsAct::Create { bid, price, vol } => Op::Create { bid: *bid, price: *price, vol: *vol },
            AbsAct::PlaceUnplaced => Op::Place { id: dead_rep(m, 3)?, ev: false },
            AbsAct::CancelRank { bid, rank } => Op::Cancel { id: m.queue(*bid).get(*rank)?.id, ev: false },
            AbsAct::ModifyRank { bid, rank, price, vol } => Op::Modify { id: m.queue(*bid).get(*rank)?.id, price: *price, vol: *vol, ev: false },
            AbsAct::CancelDead { class } => Op::Cancel { id: dead_rep(m, *class)?, ev: true },
            AbsAct::ModifyDead { class } => Op::Modify { id: dead_rep(m, *class)?, price: Some(self.profile.prices[0]), vol: Some(1), ev: false },
            AbsAct::PlaceDead { class } => Op::Place { id: dead_rep(m, *class)?, ev: false },
            AbsAct::Enable => Op::Enable,
            AbsAct::Disable => Op::Disable,
            AbsAct::Reload => Op::Reload { mode: 0 },
        };
        Some(Step { dt: dt as u64, op })
    }
}

impl Model for Absx {
    type State = AbsState;
    type Action = (u8, AbsAct);

    fn init_states(&self) -> Vec<AbsState> {
        let m = RefModel::new(self.profile.start_time, self.profile.tick, self.profile.start_trading);
        vec![AbsState { key: key_of(&m, false, self.tie_cap(), self.with_redundant, 0, vec![]), hist: vec![], model: m }]
    }

    fn actions(&self, s: &AbsState, acts: &mut Vec<(u8, AbsAct)>) {
        if s.key.bad {
            return;
        }
        let mut out: Vec<AbsAct> = Vec::new();
        self.abs_actions(s, &mut out);
        if self.reversed {
            out.reverse();
        }
        for a in out {
            if self.ties {
                acts.push((0, a.clone()));
            }
            acts.push((1, a));
        }
    }

    fn next_state(&self, last: &AbsState, a: (u8, AbsAct)) -> Option<AbsState> {
        self.step_state(last, a.0, a.1)
    }

    fn properties(&self) -> Vec<Property<Self>> {
        self.props()
    }
}

impl Absx {
    fn abs_actions(&self, s: &AbsState, out: &mut Vec<AbsAct>) {
        let p = &self.profile;
        for bid in [true, false] {
            for &price in &p.prices {
                for &vol in &p.limit_vols {
                    out.push(AbsAct::Limit { bid, price, vol });
                }
            }
            for &vol in &p.market_vols {
                out.push(AbsAct::Market { bid, vol });
            }
            let n = if bid { s.key.bids.len() } else { s.key.asks.len() };
            for rank in 0..n {
                out.push(AbsAct::CancelRank { bid, rank });
                if self.with_modify {
                    let mut popts: Vec<Option<u32>> = vec![None];
                    popts.extend(p.prices.iter().map(|x| Some(*x)));
                    for pr in &popts {
                        let mut vopts: Vec<Option<u32>> = vec![None];
                        vopts.extend(self.modify_vols.iter().map(|x| Some(*x)));
                        for v in &vopts {
                            if pr.is_none() && v.is_none() {
                                continue;
                            }
                            out.push(AbsAct::ModifyRank { bid, rank, price: *pr, vol: *v });
                        }
                    }
                }
            }
        }
        if self.with_create {
            if s.key.unplaced.is_none() {
                out.push(AbsAct::Create { bid: true, price: Some(p.prices[p.prices.len() / 2]), vol: p.limit_vols[p.limit_vols.len() - 1] });
                out.push(AbsAct::Create { bid: false, price: None, vol: p.market_vols[p.market_vols.len() - 1] });
            } else {
                out.push(AbsAct::PlaceUnplaced);
            }
        }
        if self.with_redundant {
            for class in 0..3 {
                if s.key.dead[class] {
                    out.push(AbsAct::CancelDead { class });
                    out.push(AbsAct::ModifyDead { class });
                    out.push(AbsAct::PlaceDead { class });
                }
            }
            if s.key.unplaced.is_some() {
                out.push(AbsAct::CancelDead { class: 3 });
                out.push(AbsAct::ModifyDead { class: 3 });
            }
        }
        if self.with_toggles {
            out.push(if s.key.trading { AbsAct::Disable } else { AbsAct::Enable });
        }
        if self.reload_depth > 0 && s.key.reload_age == 0 {
            out.push(AbsAct::Reload);
        }
    }

    fn step_state(&self, last: &AbsState, dt: u8, a: AbsAct) -> Option<AbsState> {
        let step = self.concretise(&last.model, dt, &a)?;
        let mut m2 = last.model.clone();
        let m_ret = apply_model(&mut m2, &step);
        // caps: a successor outside the boundary is not executed or judged (counted as cut)
        let over = m2.bids.len() > self.max_rest
            || m2.asks.len() > self.max_rest
            || m2.orders.iter().any(|o| o.status == ACTIVE && o.vol > self.max_vol);
        if over {
            self.cut.fetch_add(1, Ordering::Relaxed);
            return None;
        }
        self.transitions.fetch_add(1, Ordering::Relaxed);
        if m2.has_tie() {
            self.tie_transitions.fetch_add(1, Ordering::Relaxed);
        }
        match &step.op {
            Op::Cancel { id, .. } => {
                let o = &last.model.orders[*id];
                if o.status == ACTIVE && o.vol < o.start_vol {
                    self.partial_head_cancels.fetch_add(1, Ordering::Relaxed);
                }
            }
            Op::Modify { .. } => {
                if m2.trades.len() > last.model.trades.len() {
                    self.crossing_modifies.fetch_add(1, Ordering::Relaxed);
                }
            }
            _ => {}
        }
        let mut hist = last.hist.clone();
        hist.push(step.clone());
        let cfg = RunCfg { label: "absx".into(), profile: self.profile.clone(), depth: 0, monitors: self.monitors.clone(), base: vec![], deadline: None };
        let real = util::subject(|| {
            let (mut book, track_before, before) = replay_tracked::<LEVELS>(&self.profile, &last.hist);
            let ret = apply_real(&mut book, &step);
            let after = Snap::take(&book);
            let mut t2 = track_before.clone();
            t2.note(&step, &before, &after);
            let mut fails = judge::<LEVELS>(&cfg, &step, &before, &after, &ret, &m2, &m_ret, &track_before, &t2);
            if self.monitors.drain && fails.is_empty() {
                let mut md = m2.clone();
                if let Err((clause, detail)) = drain_probe(&mut book, &mut md) {
                    fails.push(Fail { monitor: "drain", clause, detail });
                }
            }
            fails
        });
        let fails = match real {
            Ok(f) => f,
            Err(msg) => vec![Fail { monitor: "panic", clause: format!("{}/{}", op_kind(&step.op), util::panic_sig(&msg)), detail: msg }],
        };
        let bad = !fails.is_empty();
        if bad {
            let mut g = self.fails.lock().unwrap();
            for f in fails {
                let w = Witness { sig: format!("closure/{}", f.sig()), detail: f.detail.clone(), profile: self.profile.clone(), levels: LEVELS, steps: hist.clone(), count: 1 };
                match g.get_mut(&w.sig) {
                    None => {
                        g.insert(w.sig.clone(), w);
                    }
                    Some(old) => {
                        old.count += 1;
                        if w.steps.len() < old.steps.len() {
                            let n = old.count;
                            *old = w;
                            old.count = n;
                        }
                    }
                }
            }
        }
        let reload_age = match a {
            AbsAct::Reload => 1,
            _ if last.key.reload_age > 0 && last.key.reload_age < self.reload_depth => last.key.reload_age + 1,
            _ => 0,
        };
        if reload_age > 0 {
            self.after_reload.fetch_add(1, Ordering::Relaxed);
        }
        let mut suffix = last.key.suffix.clone();
        if self.suffix_k > 0 {
            suffix.push(act_class(&a));
            if suffix.len() > self.suffix_k {
                suffix.remove(0);
            }
        }
        Some(AbsState { key: key_of(&m2, bad, self.tie_cap(), self.with_redundant, reload_age, suffix), hist, model: m2 })
    }

    fn props(&self) -> Vec<Property<Self>> {
        vec![
            Property::always("implementation conforms to the reference on every transition", |_, s: &AbsState| !s.key.bad),
            Property::sometimes("queue of maximal length at one price", |m: &Absx, s: &AbsState| {
                let n = m.max_rest;
                [&s.key.bids, &s.key.asks].iter().any(|q| q.len() >= n && q[0].0 == q[n - 1].0)
            }),
            Property::sometimes("book crossed (only reachable with trading off)", |m: &Absx, s: &AbsState| {
                !m.with_toggles || (!s.key.bids.is_empty() && !s.key.asks.is_empty() && s.key.bids[0].0 >= s.key.asks[0].0)
            }),
            Property::sometimes("both sides hold resting orders", |_, s: &AbsState| !s.key.bids.is_empty() && !s.key.asks.is_empty()),
        ]
    }
}

pub struct ClosureResult {
    pub unique: usize,
    pub generated: usize,
    pub transitions: u64,
    pub cut: u64,
    pub max_depth: usize,
    pub after_reload: u64,
    pub fails: BTreeMap<String, Witness>,
    pub guards_missing: Vec<String>,
    pub wall_s: f64,
}

pub fn closure(m: Absx, dfs: bool) -> ClosureResult {
    let t0 = std::time::Instant::now();
    let transitions = m.transitions.clone();
    let cut = m.cut.clone();
    let fails = m.fails.clone();
    let partial = m.partial_head_cancels.clone();
    let crossing = m.crossing_modifies.clone();
    let with_modify = m.with_modify;
    let ties = m.ties;
    let tie_tr = m.tie_transitions.clone();
    let after_reload = m.after_reload.clone();
    let reload_depth = m.reload_depth;
    let b = m.checker().threads(util::n_threads());
    let (unique, generated, depth, found): (usize, usize, usize, Vec<&'static str>) = if dfs {
        let c = b.spawn_dfs().join();
        (c.unique_state_count(), c.state_count(), c.max_depth(), c.discoveries().keys().copied().collect())
    } else {
        let c = b.spawn_bfs().join();
        (c.unique_state_count(), c.state_count(), c.max_depth(), c.discoveries().keys().copied().collect())
    };
    let mut missing = Vec::new();
    for g in ["queue of maximal length at one price", "book crossed (only reachable with trading off)", "both sides hold resting orders"] {
        if !found.contains(&g) {
            missing.push(g.to_string());
        }
    }
    // (cancels of partially filled heads are counted but not required: whether the
    // representative history of a key contains a partial fill is path-dependent, the key
    // deliberately forgets start volumes)
    let _ = partial.load(Ordering::Relaxed);
    if with_modify && crossing.load(Ordering::Relaxed) == 0 {
        missing.push("a modify that trades".into());
    }
    if ties && tie_tr.load(Ordering::Relaxed) == 0 {
        missing.push("a state holding two orders queued at one price with one timestamp".into());
    }
    if reload_depth > 0 && after_reload.load(Ordering::Relaxed) == 0 {
        missing.push("a transition on a reloaded book".into());
    }
    let f = fails.lock().unwrap().clone();
    ClosureResult {
        unique,
        generated,
        transitions: transitions.load(Ordering::Relaxed),
        cut: cut.load(Ordering::Relaxed),
        max_depth: depth,
        after_reload: after_reload.load(Ordering::Relaxed),
        fails: f,
        guards_missing: missing,
        wall_s: t0.elapsed().as_secs_f64(),
    }
}

pub struct ClosureCfg {
    pub label: &'static str,
    pub max_rest: usize,
    pub max_vol: u32,
    pub modify: bool,
    pub toggles: bool,
    pub create: bool,
    pub redundant: bool,
    pub ties: bool,
    /// number of grid prices (2 or 3)
    pub prices: usize,
    /// snapshot reload as an action; states up to this many operations after a reload are kept apart (0 = no reloads)
    pub reload_depth: u8,
    /// classes of the last k operations in the key (0 = live book only)
    pub suffix_k: usize,
}

/// Run the closure for a property's monitor set and fold the result into its outcome.
pub fn run_closure(out: &mut Outcome, monitors: &Monitors, c: &ClosureCfg, also_dfs: bool) {
    let mut profile = Profile::core("closure", 1, 10);
    profile.prices.truncate(c.prices.max(1));
    profile.limit_vols = (1..=c.max_vol.min(2)).collect();
    profile.market_vols = vec![1, c.max_vol + 1];
    let mk = || Absx {
        profile: profile.clone(),
        monitors: monitors.clone(),
        max_rest: c.max_rest,
        max_vol: c.max_vol,
        with_modify: c.modify,
        modify_vols: (1..=c.max_vol).collect(),
        with_toggles: c.toggles,
        with_create: c.create,
        with_redundant: c.redundant,
        ties: c.ties,
        reload_depth: c.reload_depth,
        suffix_k: c.suffix_k,
        after_reload: Arc::new(AtomicU64::new(0)),
        tie_transitions: Arc::new(AtomicU64::new(0)),
        reversed: false,
        transitions: Arc::new(AtomicU64::new(0)),
        cut: Arc::new(AtomicU64::new(0)),
        fails: Arc::new(Mutex::new(BTreeMap::new())),
        partial_head_cancels: Arc::new(AtomicU64::new(0)),
        crossing_modifies: Arc::new(AtomicU64::new(0)),
    };
    let r = closure(mk(), false);
    eprintln!(
        "  E2 closure {:<44} states={:>7} transitions={:>9} cut_by_caps={:>8} depth={} fails={} {:.1}s",
        c.label, r.unique, r.transitions, r.cut, r.max_depth, r.fails.len(), r.wall_s
    );
    let mut rec = json!({
        "engine": "absx (stateright BFS closure)", "label": c.label, "caps": {"max_resting_per_side": c.max_rest, "max_volume": c.max_vol, "max_unplaced": 1, "grid_prices": c.prices.max(1)},
        "actions": {"modify": c.modify, "toggles": c.toggles, "create_place": c.create, "redundant_requests_on_dead_classes": c.redundant, "history_suffix_in_key": if c.suffix_k > 0 { format!("operation classes (placement/cancel/modify/toggle/reload) of the last {} operations", c.suffix_k) } else { "none (live book only)".to_string() }, "snapshot_reload": if c.reload_depth > 0 { format!("an action in every state; states within {} operations after a reload are kept apart and fully expanded", c.reload_depth) } else { "not among the actions".to_string() }, "clock_advance": if c.ties { "{0,+1} before every action; queue ages (clipped) are part of the key" } else { "+1 before every action" }},
        "unique_abstract_states": r.unique, "states_generated": r.generated, "transitions_executed_on_real_code": r.transitions,
        "cut_by_caps": r.cut, "max_depth": r.max_depth, "transitions_on_recently_reloaded_books": r.after_reload, "wall_s": (r.wall_s * 100.0).round() / 100.0,
        "violating_signatures": r.fails.keys().collect::<Vec<_>>(),
    });
    out.add_u64("states", r.unique as u64);
    out.add_u64("transitions", r.transitions);
    out.add_u64("traces_validated_against_impl", r.transitions);
    if r.fails.is_empty() && !r.guards_missing.is_empty() {
        out.machinery_errors.push(format!("vacuous closure '{}': never reached: {:?}", c.label, r.guards_missing));
    }
    if also_dfs && r.fails.is_empty() {
        // second sweep with different representatives: actions enumerated in reverse order, so
        // that BFS settles on other (equally short) histories for most keys. (A DFS re-sweep was
        // used first; its representatives are hundreds of operations long and every transition
        // replays them - 30x the cost for the same statement.)
        let mut m2 = mk();
        m2.reversed = true;
        let d = closure(m2, false);
        eprintln!("  E2 closure {:<44} re-sweep, other representatives: states={} transitions={} fails={} {:.1}s", c.label, d.unique, d.transitions, d.fails.len(), d.wall_s);
        rec["resweep_other_representatives"] = json!({"unique_abstract_states": d.unique, "transitions": d.transitions, "max_depth": d.max_depth, "wall_s": (d.wall_s * 100.0).round() / 100.0});
        // (executed-transition counts may differ by a few: parallel workers can expand the same new key twice)
        if d.unique != r.unique {
            out.machinery_errors.push(format!(
                "abstraction check failed for '{}': the first sweep found {} keys / {} transitions, the re-sweep with other representatives {} / {} (a key's futures depend on its history)",
                c.label, r.unique, r.transitions, d.unique, d.transitions
            ));
        }
        for (k, w) in d.fails {
            out.fails.entry(k).or_insert(w);
        }
    }
    out.push("runs", rec);
    for (k, w) in r.fails {
        out.fails.entry(k).or_insert(w);
    }
}
