//! C16: built-in agents emit only valid instructions and never abort (scripted generator,
//! deviation-bounded), on `Env` and `MarketEnv<2,3>`.

use crate::report::Outcome;
use crate::scriptrng::{Ans, ScriptRng};
use crate::snap::*;
use crate::util;
use bourse_de::agents::{Agent, MarketAgent, MomentumAgent, MomentumMarketAgent, MomentumParams, NoiseAgent, NoiseAgentParams, NoiseMarketAgent, RandomAgents, RandomMarketAgents};
use bourse_de::{Env, MarketEnv};
use rand::RngCore;
use rand_xoshiro::rand_core::SeedableRng;
use rand_xoshiro::Xoroshiro128StarStar;
use serde_json::json;
use std::collections::BTreeMap;
use std::sync::atomic::{AtomicU64, Ordering};
use std::sync::Mutex;

pub const FOREIGN: u32 = u32::MAX - 7;
/// resting on the book as far as a user can tell: placed and not completed (whatever the status is called)
pub fn resting(o: &OrderRec) -> bool {
    o.status != NEW && o.status != FILLED && o.status != CANCELLED && o.status != crate::snap::REJECTED
}
pub const ASSET: usize = 1;

#[derive(Clone, Debug, PartialEq)]
pub enum AgentCfg {
    Random { n: usize, tick_range: (u32, u32), vol_range: (u32, u32), tick: u32, rate: f32 },
    Noise { start: u32, n: u16, tick: u32, p_limit: f32, p_market: f32, p_cancel: f32, vol: u32, mu: f64, sigma: f64 },
    Momentum { start: u32, n: u16, tick: u32, p_cancel: f32, vol: u32, decay: f64, demand: f64, scale: f64, ratio: f64, mu: f64, sigma: f64 },
}

impl AgentCfg {
    pub fn tick(&self) -> u32 {
        match self {
            AgentCfg::Random { tick, .. } | AgentCfg::Noise { tick, .. } | AgentCfg::Momentum { tick, .. } => *tick,
        }
    }
    pub fn traders(&self) -> Vec<u32> {
        match self {
            AgentCfg::Random { n, .. } => (0..*n as u32).collect(),
            AgentCfg::Noise { start, n, .. } | AgentCfg::Momentum { start, n, .. } => (*start..*start + *n as u32).collect(),
        }
    }
}

pub enum Single {
    R(RandomAgents),
    N(NoiseAgent),
    M(MomentumAgent),
}
pub enum Multi {
    R(RandomMarketAgents),
    N(NoiseMarketAgent),
    M(MomentumMarketAgent),
}

fn noise_params(c: &AgentCfg) -> NoiseAgentParams {
    if let AgentCfg::Noise { tick, p_limit, p_market, p_cancel, vol, mu, sigma, .. } = c {
        NoiseAgentParams { tick_size: *tick, p_limit: *p_limit, p_market: *p_market, p_cancel: *p_cancel, trade_vol: *vol, price_dist_mu: *mu, price_dist_sigma: *sigma }
    } else {
        unreachable!()
    }
}
fn mom_params(c: &AgentCfg) -> MomentumParams {
    if let AgentCfg::Momentum { tick, p_cancel, vol, decay, demand, scale, ratio, mu, sigma, .. } = c {
        MomentumParams { tick_size: *tick, p_cancel: *p_cancel, trade_vol: *vol, decay: *decay, demand: *demand, scale: *scale, order_ratio: *ratio, price_dist_mu: *mu, price_dist_sigma: *sigma }
    } else {
        unreachable!()
    }
}

impl Single {
    pub fn make(c: &AgentCfg) -> Single {
        match c {
            AgentCfg::Random { n, tick_range, vol_range, tick, rate } => Single::R(RandomAgents::new(*n, *tick_range, *vol_range, *tick, *rate)),
            AgentCfg::Noise { start, n, .. } => Single::N(NoiseAgent::new(*start, *n, noise_params(c))),
            AgentCfg::Momentum { start, n, .. } => Single::M(MomentumAgent::new(*start, *n, mom_params(c))),
        }
    }
    pub fn update<R: RngCore>(&mut self, env: &mut Env, rng: &mut R) {
        match self {
            Single::R(a) => a.update(env, rng),
            Single::N(a) => a.update(env, rng),
            Single::M(a) => a.update(env, rng),
        }
    }
}
impl Multi {
    pub fn make(c: &AgentCfg) -> Multi {
        match c {
            AgentCfg::Random { n, tick_range, vol_range, tick, rate } => Multi::R(RandomMarketAgents::new(ASSET, *n, *tick_range, *vol_range, *tick, *rate)),
            AgentCfg::Noise { start, n, .. } => Multi::N(NoiseMarketAgent::new(ASSET, *start, *n, noise_params(c))),
            AgentCfg::Momentum { start, n, .. } => Multi::M(MomentumMarketAgent::new(*start, *n, ASSET, mom_params(c))),
        }
    }
    pub fn update<R: RngCore>(&mut self, env: &mut MarketEnv<2, 3>, rng: &mut R) {
        match self {
            Multi::R(a) => a.update(env, rng),
            Multi::N(a) => a.update(env, rng),
            Multi::M(a) => a.update(env, rng),
        }
    }
}

/// one world = environment + agent group, single or multi asset
pub enum World {
    S(Env, Single),
    M(MarketEnv<2, 3>, Multi),
}

#[derive(Clone, Copy, Debug, PartialEq, Eq)]
pub enum StartBook {
    Empty,
    BidsOnly,
    AsksOnly,
    TwoSided,
    /// no bids, best ask exactly one tick above zero (mid-price below one tick)
    AskAtOneTick,
    /// bid at one tick, ask at two ticks
    LowTwoSided,
    /// no asks, best bid 1000 ticks below the largest grid price (sells overshoot the price limit)
    BidNearTop,
}

impl World {
    pub fn new(multi: bool, c: &AgentCfg, start: StartBook, centre: u32) -> World {
        let tick = c.tick();
        let mut w = if multi {
            World::M(MarketEnv::new(0, [1, tick], 1000, true), Multi::make(c))
        } else {
            World::S(Env::new(0, tick, 1000, true), Single::make(c))
        };
        let (b, a) = ((centre - 2) * tick, (centre + 2) * tick);
        let mut place = |bid: bool, price: u32| match &mut w {
            World::S(e, _) => {
                e.place_order(side_of(bid), 50, FOREIGN, Some(price)).unwrap();
            }
            World::M(e, _) => {
                e.place_order(ASSET, side_of(bid), 50, FOREIGN, Some(price)).unwrap();
            }
        };
        match start {
            StartBook::Empty => {}
            StartBook::BidsOnly => place(true, b),
            StartBook::AsksOnly => place(false, a),
            StartBook::TwoSided => {
                place(true, b);
                place(false, a);
            }
            StartBook::AskAtOneTick => place(false, tick),
            StartBook::LowTwoSided => {
                place(true, tick);
                place(false, 2 * tick);
            }
            // (1000 ticks of room: with the bid on the last grid price no valid sell price at or above the mid-price exists)
            StartBook::BidNearTop => place(true, ((u32::MAX - 1) / tick - 1000) * tick),
        }
        let mut r = ScriptRng::new(vec![], 5);
        w.step(&mut r);
        w
    }
    pub fn step<R: RngCore>(&mut self, rng: &mut R) {
        match self {
            World::S(e, _) => e.step(rng),
            World::M(e, _) => e.step(rng),
        }
    }
    pub fn update<R: RngCore>(&mut self, rng: &mut R) {
        match self {
            World::S(e, a) => a.update(e, rng),
            World::M(e, a) => a.update(e, rng),
        }
    }
    pub fn orders(&self) -> Vec<OrderRec> {
        match self {
            World::S(e, _) => e.get_orders().into_iter().map(OrderRec::of).collect(),
            World::M(e, _) => e.get_orders(ASSET).into_iter().map(OrderRec::of).collect(),
        }
    }
    pub fn other_asset_orders(&self) -> usize {
        match self {
            World::S(..) => 0,
            World::M(e, _) => e.get_orders(0).len(),
        }
    }
    pub fn mid(&self) -> f64 {
        match self {
            World::S(e, _) => e.get_orderbook().mid_price(),
            World::M(e, _) => e.get_market().get_order_book(ASSET).mid_price(),
        }
    }
    pub fn place_foreign(&mut self, bid: bool, vol: u32, price: Option<u32>) -> usize {
        match self {
            World::S(e, _) => e.place_order(side_of(bid), vol, FOREIGN, price).unwrap(),
            World::M(e, _) => e.place_order(ASSET, side_of(bid), vol, FOREIGN, price).unwrap().1,
        }
    }
    pub fn cancel_foreign(&mut self, id: usize) {
        match self {
            World::S(e, _) => e.cancel_order(id),
            World::M(e, _) => e.cancel_order((ASSET, id)),
        }
    }
}

fn is_market(o: &OrderRec) -> bool {
    (o.bid && o.price == MAXP) || (!o.bid && o.price == 0)
}

/// Judge one update+step round. `before` = orders before update, `mid` read before update.
pub fn judge_round(c: &AgentCfg, before: &[OrderRec], mid: f64, after_update: &[OrderRec], after_step: &[OrderRec]) -> Result<(), (String, String)> {
    let bad = |c: &str, d: String| Err((c.to_string(), d));
    let traders = c.traders();
    let (t_lo, t_hi) = (traders.first().copied().unwrap_or(0), traders.last().copied().unwrap_or(0));
    let is_own = |t: u32| t >= t_lo && t <= t_hi;
    let tick = c.tick();
    let nb = before.len();
    if after_update.len() < nb || after_update[..nb] != before[..] {
        return bad("update-changed-existing-orders", format!("{:?} -> {:?}", before, &after_update[..nb.min(after_update.len())]));
    }
    let new = &after_update[nb..];
    for o in new {
        if o.status != NEW {
            return bad("submitted-order-not-new", format!("{:?}", o));
        }
        if !is_own(o.trader) {
            return bad("foreign-trader-id", format!("{:?} not in {}..={}", o, t_lo, t_hi));
        }
        if !is_market(o) && o.price % tick != 0 {
            return bad("off-grid-price", format!("{:?} tick {}", o, tick));
        }
        match c {
            AgentCfg::Random { tick_range, vol_range, .. } => {
                // (price 0 for a sell / 2^32-1 for a buy cannot be told from a market order; they
                // are legitimate quotes when the configured range reaches the end of the axis)
                let range_has_sentinel = tick_range.0 == 0 || (tick_range.1 as u64 - 1) * tick as u64 == MAXP as u64;
                if is_market(o) && !range_has_sentinel {
                    return bad("random-agent-market-order", format!("{:?}", o));
                }
                let t = o.price / tick;
                if t < tick_range.0 || t >= tick_range.1 {
                    return bad("price-outside-tick-range", format!("{:?} range {:?}", o, tick_range));
                }
                if o.vol < vol_range.0 || o.vol >= vol_range.1 {
                    return bad("volume-outside-range", format!("{:?} range {:?}", o, vol_range));
                }
            }
            AgentCfg::Noise { vol, .. } | AgentCfg::Momentum { vol, .. } => {
                if o.vol != *vol || o.start_vol != *vol {
                    return bad("volume-not-configured", format!("{:?} configured {}", o, vol));
                }
                if !is_market(o) {
                    if o.bid && (o.price as f64) > mid {
                        return bad("buy-above-mid", format!("{:?} mid {}", o, mid));
                    }
                    if !o.bid && (o.price as f64) < mid {
                        return bad("sell-below-mid", format!("{:?} mid {}", o, mid));
                    }
                }
            }
        }
    }
    // cancellations that took effect in the step: orders that existed before the update
    let mut cancelled_of: BTreeMap<u32, usize> = BTreeMap::new();
    for (b, a) in before.iter().zip(after_step.iter()) {
        if b.status != CANCELLED && a.status == CANCELLED {
            if b.trader == FOREIGN {
                return bad("foreign-order-cancelled", format!("{:?}", a));
            }
            if !resting(b) {
                return bad("cancelled-order-was-not-active", format!("{:?} -> {:?}", b, a));
            }
            if !is_own(b.trader) {
                return bad("cancelled-someone-elses-order", format!("{:?}", a));
            }
            *cancelled_of.entry(b.trader).or_insert(0) += 1;
        }
    }
    // per-trader counts of new limit / market orders in one pass (populations of tens of thousands)
    let mut cnt: BTreeMap<(u32, bool), usize> = BTreeMap::new();
    for o in new {
        *cnt.entry((o.trader, is_market(o))).or_insert(0) += 1;
    }
    let new_of = |t: u32, market: Option<bool>| match market {
        Some(m) => cnt.get(&(t, m)).copied().unwrap_or(0),
        None => cnt.get(&(t, true)).copied().unwrap_or(0) + cnt.get(&(t, false)).copied().unwrap_or(0),
    };
    let group_active_before: Vec<&OrderRec> = before.iter().filter(|o| resting(o) && is_own(o.trader)).collect();
    match c {
        AgentCfg::Random { rate, .. } => {
            // per-trader counters in one pass each (populations of tens of thousands)
            let mut live_upd: BTreeMap<u32, usize> = BTreeMap::new();
            let mut live_step: BTreeMap<u32, usize> = BTreeMap::new();
            let mut new_cnt: BTreeMap<u32, usize> = BTreeMap::new();
            let mut had_active: BTreeMap<u32, bool> = BTreeMap::new();
            let mut filled_instead: BTreeMap<u32, bool> = BTreeMap::new();
            for o in after_update.iter().filter(|o| o.status == NEW || resting(o)) {
                *live_upd.entry(o.trader).or_insert(0) += 1;
            }
            for o in after_step.iter().filter(|o| o.status == NEW || resting(o)) {
                *live_step.entry(o.trader).or_insert(0) += 1;
            }
            for o in new {
                *new_cnt.entry(o.trader).or_insert(0) += 1;
            }
            for (b, a) in before.iter().zip(after_step.iter()) {
                if resting(b) {
                    had_active.insert(b.trader, true);
                    if a.status == FILLED {
                        filled_instead.insert(b.trader, true);
                    }
                }
            }
            for t in &traders {
                let live = live_upd.get(t).copied().unwrap_or(0);
                let live_after = live_step.get(t).copied().unwrap_or(0);
                let cancelling = cancelled_of.get(t).copied().unwrap_or(0);
                if live > 1 {
                    return bad("random-agent-two-live-orders", format!("trader {} holds {} live orders after update", t, live));
                }
                if live_after > 1 {
                    return bad("random-agent-two-live-orders", format!("trader {} holds {} live orders", t, live_after));
                }
                let actions = new_cnt.get(t).copied().unwrap_or(0) + cancelling;
                if *rate <= 0.0 && actions != 0 {
                    return bad("action-with-probability-zero", format!("trader {} acted {} times with activity rate {}", t, actions, rate));
                }
                if *rate >= 1.0 {
                    // a cancel may lose the race against a fill inside the step; count the instruction by its effect or the fill
                    let ha = had_active.get(t).copied().unwrap_or(false);
                    let fi = filled_instead.get(t).copied().unwrap_or(false);
                    let acted = actions + if ha && cancelling == 0 && fi { 1 } else { 0 };
                    if acted != 1 {
                        return bad("no-action-with-probability-one", format!("trader {} acted {} times with activity rate {}", t, acted, rate));
                    }
                }
            }
        }
        AgentCfg::Noise { p_limit, p_market, p_cancel, .. } => {
            for t in &traders {
                let (l, m) = (new_of(*t, Some(false)), new_of(*t, Some(true)));
                if l > 1 || m > 1 {
                    return bad("more-than-one-order-per-trader", format!("trader {}: {} limit {} market", t, l, m));
                }
                if *p_limit <= 0.0 && l != 0 {
                    return bad("action-with-probability-zero", format!("trader {} placed a limit order with p_limit {}", t, p_limit));
                }
                if *p_limit >= 1.0 && l != 1 {
                    return bad("no-action-with-probability-one", format!("trader {} placed {} limit orders with p_limit {}", t, l, p_limit));
                }
                if *p_market <= 0.0 && m != 0 {
                    return bad("action-with-probability-zero", format!("trader {} placed a market order with p_market {}", t, p_market));
                }
                if *p_market >= 1.0 && m != 1 {
                    return bad("no-action-with-probability-one", format!("trader {} placed {} market orders with p_market {}", t, m, p_market));
                }
            }
            cancel_clause(*p_cancel, &group_active_before, before, after_step)?;
        }
        AgentCfg::Momentum { p_cancel, .. } => {
            for t in &traders {
                let (l, m) = (new_of(*t, Some(false)), new_of(*t, Some(true)));
                if l > 1 || m > 1 {
                    return bad("more-than-one-order-per-trader", format!("trader {}: {} limit {} market", t, l, m));
                }
            }
            cancel_clause(*p_cancel, &group_active_before, before, after_step)?;
        }
    }
    Ok(())
}

/// Documented activity rule of the momentum agents, with M recomputed by the harness from the
/// mid-prices it read before each update: nothing at M = 0 (probability 0), one market order per
/// trader when |demand*tanh(scale*M)|/n >= 1 (and one limit order when ratio times that is >= 1),
/// buys for M > 0 and sells for M < 0.
pub fn momentum_activity_clause(c: &AgentCfg, m: f64, new: &[OrderRec]) -> Result<(), (String, String)> {
    let AgentCfg::Momentum { n, demand, scale, ratio, .. } = c else { return Ok(()) };
    let prob = (demand * (scale * m).tanh()).abs() / *n as f64;
    if m == 0.0 && !new.is_empty() {
        return Err(("action-with-probability-zero".into(), format!("momentum M = 0 but the agents submitted {:?}", new)));
    }
    for o in new {
        if o.bid != (m > 0.0) {
            return Err(("momentum-wrong-side".into(), format!("M = {} but {:?} was submitted", m, o)));
        }
    }
    for t in c.traders() {
        let nm = new.iter().filter(|o| o.trader == t && is_market(o)).count();
        let nl = new.iter().filter(|o| o.trader == t && !is_market(o)).count();
        // stay clear of the threshold itself: the recurrence is evaluated in floating point on both sides
        if prob >= 1.0 + 1e-9 && nm != 1 {
            return Err((
                "no-action-with-probability-one".into(),
                format!("M = {}: |demand*tanh(scale*M)|/n = {} >= 1 but trader {} submitted {} market orders", m, prob, t, nm),
            ));
        }
        if prob * ratio >= 1.0 + 1e-9 && nl != 1 {
            return Err((
                "no-action-with-probability-one".into(),
                format!("M = {}: ratio*|demand*tanh(scale*M)|/n = {} >= 1 but trader {} submitted {} limit orders", m, prob * ratio, t, nl),
            ));
        }
        if *ratio == 0.0 && nl != 0 {
            return Err(("action-with-probability-zero".into(), format!("order ratio 0 but trader {} submitted a limit order", t)));
        }
    }
    Ok(())
}

fn cancel_clause(p_cancel: f32, group_active_before: &[&OrderRec], before: &[OrderRec], after_step: &[OrderRec]) -> Result<(), (String, String)> {
    let _ = before;
    for o in group_active_before {
        let a = &after_step[o.id];
        if p_cancel <= 0.0 && a.status == CANCELLED {
            return Err(("action-with-probability-zero".into(), format!("order {:?} was cancelled with p_cancel {}", a, p_cancel)));
        }
        if p_cancel >= 1.0 && resting(a) {
            return Err(("no-action-with-probability-one".into(), format!("order {:?} survived with p_cancel {}", a, p_cancel)));
        }
    }
    Ok(())
}

// ------------------------------------------------------------------------------------------

pub struct Acc {
    pub execs: AtomicU64,
    pub rounds: AtomicU64,
    pub orders_seen: AtomicU64,
    pub cancels_seen: AtomicU64,
    /// forced-cancellation scenarios whose calibration held (a verdict was reached)
    pub forced_decided: AtomicU64,
    /// agent orders found resting with part of their volume executed when an update started
    pub partly_filled_seen: AtomicU64,
    pub fails: Mutex<BTreeMap<String, (String, serde_json::Value)>>,
}

impl Acc {
    pub fn new() -> Self {
        Acc { execs: AtomicU64::new(0), rounds: AtomicU64::new(0), orders_seen: AtomicU64::new(0), cancels_seen: AtomicU64::new(0), forced_decided: AtomicU64::new(0), partly_filled_seen: AtomicU64::new(0), fails: Mutex::new(BTreeMap::new()) }
    }
    pub fn fail(&self, sig: String, detail: String, replay: serde_json::Value) {
        self.fails.lock().unwrap().entry(sig).or_insert((detail, replay));
    }
}

pub fn ans_json(s: &[Ans]) -> serde_json::Value {
    json!(s.iter().map(|a| match a { Ans::Frac(k, r) => format!("{}/{}", k, r), Ans::Raw(x) => format!("raw:{:#x}", x) }).collect::<Vec<_>>())
}

/// Run `rounds` update+step rounds; `scripts[r]` scripts the generator handed to update r.
pub fn run_scripted(acc: &Acc, multi: bool, c: &AgentCfg, start: StartBook, scripts: &[Vec<Ans>], seed: u64) {
    run_scripted_opt(acc, multi, c, start, scripts, seed, false)
}

/// `nibble`: after every round the harness sends a market order for ONE unit against each side whose
/// best-priced orders all belong to the agents (and hold at least two units): the agents then start
/// their next update owning orders that are still resting but partly executed.
pub fn run_scripted_opt(acc: &Acc, multi: bool, c: &AgentCfg, start: StartBook, scripts: &[Vec<Ans>], seed: u64, nibble: bool) {
    acc.execs.fetch_add(1, Ordering::Relaxed);
    let replay = || json!({"engine": "agentsx", "multi_asset": multi, "agent": format!("{:?}", c), "start_book": format!("{:?}", start), "update_scripts": scripts.iter().map(|s| ans_json(s)).collect::<Vec<_>>(), "fallback_seed": seed, "one_unit_market_orders_against_agent_quotes_between_rounds": nibble});
    let w = util::subject(|| World::new(multi, c, start, 500));
    let mut w = match w {
        Ok(w) => w,
        Err(m) => {
            acc.fail(format!("agents/abort/setup/{}", util::panic_sig(&m)), m, replay());
            return;
        }
    };
    let mut quote: Option<usize> = None;
    let mut mids: Vec<f64> = Vec::new();
    let mut mom = 0.0f64;
    for (r, script) in scripts.iter().enumerate() {
        acc.rounds.fetch_add(1, Ordering::Relaxed);
        if matches!(c, AgentCfg::Momentum { .. }) && (r == 1 || r == 2) {
            // the harness moves the mid-price: up before round 1, back down before round 2, nothing before round 3
            let pre = util::subject(|| {
                if r % 2 == 1 {
                    quote = Some(w.place_foreign(true, 50, Some(501 * c.tick())));
                } else if let Some(q) = quote.take() {
                    w.cancel_foreign(q);
                }
                let mut prng = ScriptRng::new(vec![], 31 + r as u64);
                w.step(&mut prng);
            });
            if let Err(m) = pre {
                acc.fail(format!("agents/abort-in-step/{}/{}", kind(c), util::panic_sig(&m)), m, replay());
                return;
            }
        }
        if nibble && r > 0 {
            let pre = util::subject(|| {
                let ords = w.orders();
                let mut sent = false;
                for bid_side in [true, false] {
                    let act: Vec<&OrderRec> = ords.iter().filter(|o| resting(o) && o.bid == bid_side && o.vol > 0).collect();
                    let best = if bid_side { act.iter().map(|o| o.price).max() } else { act.iter().map(|o| o.price).min() };
                    if let Some(best) = best {
                        if act.iter().filter(|o| o.price == best).all(|o| o.trader != FOREIGN && o.vol >= 2) {
                            w.place_foreign(!bid_side, 1, None);
                            sent = true;
                        }
                    }
                }
                if sent {
                    let mut prng = ScriptRng::new(vec![], 71 + r as u64);
                    w.step(&mut prng);
                }
            });
            if let Err(m) = pre {
                acc.fail(format!("agents/abort-in-step/{}/{}", kind(c), util::panic_sig(&m)), m, replay());
                return;
            }
        }
        let before = w.orders();
        acc.partly_filled_seen.fetch_add(before.iter().filter(|o| resting(o) && o.trader != FOREIGN && o.vol > 0 && o.vol < o.start_vol).count() as u64, Ordering::Relaxed);
        let other_before = w.other_asset_orders();
        let mid = w.mid();
        let mut rng = ScriptRng::new(script.clone(), seed.wrapping_add(r as u64 * 977));
        rng.budget = 200_000;
        let res = util::subject(|| w.update(&mut rng));
        if let Err(m) = res {
            acc.fail(
                format!("agents/abort/{}/{}", kind(c), util::panic_sig(&m)),
                format!("{} aborted in round {} (mid price {}): {}", kind(c), r, mid, m),
                replay(),
            );
            return;
        }
        let after_update = w.orders();
        let mut srng = ScriptRng::new(vec![], seed ^ 0x55 ^ r as u64);
        if let Err(m) = util::subject(|| w.step(&mut srng)) {
            acc.fail(format!("agents/abort-in-step/{}/{}", kind(c), util::panic_sig(&m)), m, replay());
            return;
        }
        let after_step = w.orders();
        acc.orders_seen.fetch_add((after_update.len() - before.len()) as u64, Ordering::Relaxed);
        acc.cancels_seen.fetch_add(before.iter().zip(after_step.iter()).filter(|(b, a)| b.status != CANCELLED && a.status == CANCELLED).count() as u64, Ordering::Relaxed);
        if w.other_asset_orders() != other_before {
            acc.fail(format!("agents/{}/order-on-wrong-asset", kind(c)), "the agent submitted to an asset it was not configured for".into(), replay());
            return;
        }
        if let Err((cl, d)) = judge_round(c, &before, mid, &after_update, &after_step) {
            acc.fail(format!("agents/{}/{}", kind(c), cl), format!("round {}: {}", r, d), replay());
            return;
        }
        if let AgentCfg::Momentum { decay, .. } = c {
            if let Some(prev) = mids.last() {
                mom = mom * (1.0 - decay) + decay * (mid - prev);
            }
            mids.push(mid);
            if mid.is_finite() {
                if let Err((cl, d)) = momentum_activity_clause(c, mom, &after_update[before.len()..]) {
                    acc.fail(format!("agents/{}/{}", kind(c), cl), format!("round {} (mid-prices observed so far {:?}): {}", r, mids, d), replay());
                    return;
                }
            }
        }
    }
}

/// Orders that survive one cancellation round stay subject to the next one. Noise agents with
/// 0 < p_cancel < 1 and p_limit = 1, quoting far behind the touch (no fills): round 0 and 1 place
/// orders under the default stream; in round 2 the generator answers the LARGEST value to the
/// first K draws of the update (K = live own orders), in round 3 the SMALLEST value. The answers
/// are only interpreted through two calibration facts checked on the same run: all-largest
/// answers cancel nothing, and all-smallest answers cancel every order placed in round 2 (which
/// has never been through a cancellation round before). If both hold, the orders of rounds 0-1
/// that survived round 2 must be cancelled in round 3 as well.
pub fn forced_cancellation(acc: &Acc, multi: bool, n: u16, tick: u32, p_cancel: f32) {
    acc.execs.fetch_add(1, Ordering::Relaxed);
    let c = AgentCfg::Noise { start: 10, n, tick, p_limit: 1.0, p_market: 0.0, p_cancel, vol: 3, mu: 3.0, sigma: 0.2 };
    let replay = json!({"engine": "agentsx", "scenario": "forced cancellation rounds", "multi_asset": multi, "agent": format!("{:?}", c)});
    let r = util::subject(|| -> Result<(), (String, String)> {
        let mut w = World::new(multi, &c, StartBook::TwoSided, 5000);
        let own = |o: &OrderRec| o.trader >= 10 && o.trader < 10 + n as u32;
        let mut placed_in: Vec<Vec<usize>> = Vec::new();
        for round in 0..4usize {
            let before = w.orders();
            let live: Vec<usize> = before.iter().filter(|o| own(o) && resting(o)).map(|o| o.id).collect();
            let k = live.len() + 2;
            let script: Vec<Ans> = match round {
                2 => vec![Ans::Raw(u64::MAX); k],
                3 => vec![Ans::Raw(0); k],
                _ => vec![],
            };
            let mut rng = ScriptRng::new(script, 900 + round as u64);
            rng.budget = 200_000;
            w.update(&mut rng);
            let after_update = w.orders();
            placed_in.push(after_update[before.len()..].iter().filter(|o| own(o)).map(|o| o.id).collect());
            let mut srng = ScriptRng::new(vec![], 70 + round as u64);
            w.step(&mut srng);
            let after = w.orders();
            if after.iter().any(|o| own(o) && o.status == FILLED) {
                return Ok(()); // (a fill: the scenario no longer isolates cancellations; no verdict)
            }
            let cancelled: Vec<usize> = live.iter().copied().filter(|id| after[*id].status == CANCELLED).collect();
            match round {
                2 => {
                    if !cancelled.is_empty() {
                        return Ok(()); // calibration: the largest answers did cancel something - draws are not where assumed
                    }
                }
                3 => {
                    let fresh: Vec<usize> = placed_in[2].iter().copied().filter(|id| live.contains(id)).collect();
                    if fresh.is_empty() || fresh.iter().any(|id| !cancelled.contains(id)) {
                        return Ok(()); // calibration failed: no verdict
                    }
                    let survivors: Vec<usize> = live.iter().copied().filter(|id| !cancelled.contains(id)).collect();
                    if !survivors.is_empty() {
                        return Err((
                            "surviving-order-no-longer-subject-to-cancellation".into(),
                            format!(
                                "p_cancel {}: with the smallest generator answers every order placed one round earlier ({:?}) was cancelled, but orders {:?}, which had survived an earlier cancellation round, were not looked at again",
                                p_cancel, fresh, survivors
                            ),
                        ));
                    }
                    acc.cancels_seen.fetch_add(cancelled.len() as u64, Ordering::Relaxed);
                    acc.forced_decided.fetch_add(1, Ordering::Relaxed);
                }
                _ => {}
            }
        }
        Ok(())
    });
    match r {
        Ok(Ok(())) => {}
        Ok(Err((cl, d))) => acc.fail(format!("agents/noise/{}", cl), d, replay),
        Err(m) => acc.fail(format!("agents/abort/noise/{}", util::panic_sig(&m)), m, replay),
    }
}

/// Unusual but legal call pattern: `update` called twice in a row with no step in between (orders tracked by
/// the agents are then still New), and a step without any update. Judged for "never aborts" and for the
/// per-order validity clauses of every update call on its own.
pub fn double_update(acc: &Acc, multi: bool, c: &AgentCfg, start: StartBook, seed: u64) {
    acc.execs.fetch_add(1, Ordering::Relaxed);
    let replay = json!({"engine": "agentsx", "scenario": "update, update, step, step, update, update, step", "multi_asset": multi, "agent": format!("{:?}", c), "start_book": format!("{:?}", start), "fallback_seed": seed});
    let mut w = match util::subject(|| World::new(multi, c, start, 500)) {
        Ok(w) => w,
        Err(m) => {
            acc.fail(format!("agents/abort/setup/{}", util::panic_sig(&m)), m, replay);
            return;
        }
    };
    for (k, what) in ["update", "update", "step", "step", "update", "update", "step"].iter().enumerate() {
        acc.rounds.fetch_add(1, Ordering::Relaxed);
        let mut rng = ScriptRng::new(vec![], seed.wrapping_add(k as u64 * 131));
        rng.budget = 200_000;
        let before = w.orders();
        let res = util::subject(|| if *what == "update" { w.update(&mut rng) } else { w.step(&mut rng) });
        if let Err(m) = res {
            acc.fail(format!("agents/abort/{}/{}", kind(c), util::panic_sig(&m)), format!("{} aborted in call #{} ({}) of update, update, step, step, update, update, step: {}", kind(c), k, what, m), replay);
            return;
        }
        if *what == "update" {
            let after = w.orders();
            let traders = c.traders();
            for o in &after[before.len()..] {
                if o.status != NEW || !traders.contains(&o.trader) || (!is_market(o) && o.price % c.tick() != 0) {
                    acc.fail(format!("agents/{}/invalid-order-in-repeated-update", kind(c)), format!("call #{}: {:?}", k, o), replay);
                    return;
                }
            }
        }
    }
}

pub fn kind(c: &AgentCfg) -> &'static str {
    match c {
        AgentCfg::Random { .. } => "random",
        AgentCfg::Noise { .. } => "noise",
        AgentCfg::Momentum { .. } => "momentum",
    }
}

/// Long default-stream runs with the library's own generator (bounded enumeration of seeds).
pub fn run_seeded(acc: &Acc, multi: bool, c: &AgentCfg, start: StartBook, seed: u64, steps: usize) {
    acc.execs.fetch_add(1, Ordering::Relaxed);
    let replay = || json!({"engine": "agentsx", "mode": "seeded", "multi_asset": multi, "agent": format!("{:?}", c), "start_book": format!("{:?}", start), "seed": seed, "steps": steps});
    let mut w = match util::subject(|| World::new(multi, c, start, 500)) {
        Ok(w) => w,
        Err(m) => {
            acc.fail(format!("agents/abort/setup/{}", util::panic_sig(&m)), m, replay());
            return;
        }
    };
    let mut rng = Xoroshiro128StarStar::seed_from_u64(seed);
    for r in 0..steps {
        acc.rounds.fetch_add(1, Ordering::Relaxed);
        let before = w.orders();
        let mid = w.mid();
        if let Err(m) = util::subject(|| w.update(&mut rng)) {
            acc.fail(
                format!("agents/abort/{}/{}", kind(c), util::panic_sig(&m)),
                format!("{} aborted at step {} of a seeded run (seed {}, mid {}): {}", kind(c), r, seed, mid, m),
                replay(),
            );
            return;
        }
        let after_update = w.orders();
        if let Err(m) = util::subject(|| w.step(&mut rng)) {
            acc.fail(format!("agents/abort-in-step/{}/{}", kind(c), util::panic_sig(&m)), m, replay());
            return;
        }
        let after_step = w.orders();
        if let Err((cl, d)) = judge_round(c, &before, mid, &after_update, &after_step) {
            acc.fail(format!("agents/{}/{}", kind(c), cl), format!("step {} seed {}: {}", r, seed, d), replay());
            return;
        }
    }
}

/// scripts = default stream with <= max_dev positions (among the first n) overridden by extreme values
pub fn scripts_with_deviations(seed: u64, n: usize, values: &[u64], max_dev: usize) -> Vec<Vec<Ans>> {
    // materialise the default stream's first n answers (both widths come from the same u64)
    let mut base = ScriptRng::new(vec![], seed);
    let defaults: Vec<u64> = (0..n).map(|_| base.next_u64()).collect();
    let mk = |over: &[(usize, u64)]| -> Vec<Ans> {
        let last = over.iter().map(|x| x.0).max().map_or(0, |m| m + 1);
        (0..last)
            .map(|i| match over.iter().find(|x| x.0 == i) {
                Some((_, v)) => Ans::Raw(*v),
                None => Ans::Raw(defaults[i]),
            })
            .collect()
    };
    let mut out = vec![vec![]];
    for j in 0..n {
        for &v in values {
            out.push(mk(&[(j, v)]));
        }
    }
    // one more single deviation, three words long: a normal draw ten standard deviations out (ziggurat layer 0
    // with u close to +1, then the tail sampler's two uniforms at 2^-30 and 2^-53) - with the heavy-tailed
    // price distributions the sampled distance is then beyond 10^40 ticks, past every integer width
    for j in 0..n.saturating_sub(2) {
        out.push(mk(&[(j, 0xFFFF_FFFF_FFFF_FF00), (j + 1, 0x0000_0004_0000_0000), (j + 2, 0)]));
    }
    if max_dev >= 2 {
        for j in 0..n {
            for j2 in (j + 1)..n {
                for &v in values {
                    for &v2 in values {
                        out.push(mk(&[(j, v), (j2, v2)]));
                    }
                }
            }
        }
    }
    out
}

pub fn extreme_values() -> Vec<u64> {
    vec![
        0,
        u64::MAX,
        // f32 draws use the top 24 bits of a u32, f64 draws the top 53 bits of a u64
        0x0000_00FF_0000_00FF,
        0x7FFF_FFFF_7FFF_FFFF,
        0x8000_0000_8000_0000,
        // ~0.3 in both widths (the in-between probability used by the grid)
        0x4CCC_CCCC_4CCC_CCCC,
        0x4CCC_CD00_4CCC_CD00,
        // the far positive tail of a normal draw (ziggurat layer 0, u close to +1): with the heavy-tailed
        // price distributions the sampled distance then reaches past either end of the price axis
        0xFFFF_FFFF_FFFF_FF00,
    ]
}

pub fn c16(tier: &str) -> i32 {
    let mut out = Outcome::new("C16", tier, "model_checking");
    let t = crate::bookprops::thorough(tier);
    let acc = Acc::new();
    let ticks: Vec<u32> = (1..=10).collect();
    let probs: Vec<f32> = vec![0.0, 0.3, 1.0, 1.5];
    let starts = [StartBook::Empty, StartBook::BidsOnly, StartBook::AsksOnly, StartBook::TwoSided, StartBook::AskAtOneTick, StartBook::LowTwoSided, StartBook::BidNearTop];
    // configuration grid
    let mut cfgs: Vec<AgentCfg> = Vec::new();
    for &tick in &ticks {
        for &p in &probs {
            for n in 1..=3usize {
                if !t && n == 2 {
                    continue;
                }
                cfgs.push(AgentCfg::Random { n, tick_range: (495, 506), vol_range: (1, 4), tick, rate: p });
                if n == 3 && p == 1.0 && tick <= 2 {
                    // a volume range that starts at zero is a non-empty range too
                    cfgs.push(AgentCfg::Random { n, tick_range: (495, 506), vol_range: (0, 2), tick, rate: p });
                }
                if n == 3 && (p == 1.0 || p == 0.3) {
                    // ranges that reach the ends of the price axis (a sell at 0 / a buy at 2^32-1 are executed at once by the book)
                    cfgs.push(AgentCfg::Random { n, tick_range: (0, 3), vol_range: (1, 4), tick, rate: p });
                    if tick > 1 && u32::MAX % tick == 0 {
                        let top = u32::MAX / tick;
                        cfgs.push(AgentCfg::Random { n, tick_range: (top - 2, top + 1), vol_range: (1, 4), tick, rate: p });
                    }
                }
                for &sigma in &[1.0f64, 10.0] {
                    cfgs.push(AgentCfg::Noise { start: 10, n: n as u16, tick, p_limit: p, p_market: p, p_cancel: p, vol: 7, mu: 0.0, sigma });
                    if p == 1.0 {
                        cfgs.push(AgentCfg::Noise { start: 10, n: n as u16, tick, p_limit: 1.0, p_market: 0.0, p_cancel: 0.0, vol: 7, mu: 0.0, sigma });
                        cfgs.push(AgentCfg::Noise { start: 10, n: n as u16, tick, p_limit: 0.3, p_market: 0.0, p_cancel: 1.0, vol: 7, mu: 0.0, sigma });
                    }
                    cfgs.push(AgentCfg::Momentum { start: 20, n: n as u16, tick, p_cancel: p, vol: 5, decay: 1.0, demand: 100.0, scale: 0.5, ratio: 1.0, mu: 0.0, sigma });
                    if p == 0.3 && sigma == 1.0 && (t || tick <= 3) {
                        // location parameters other than zero (quotes several ticks away / very close)
                        cfgs.push(AgentCfg::Noise { start: 10, n: n as u16, tick, p_limit: 1.0, p_market: p, p_cancel: p, vol: 7, mu: 2.0, sigma: 0.5 });
                        cfgs.push(AgentCfg::Noise { start: 10, n: n as u16, tick, p_limit: 1.0, p_market: p, p_cancel: p, vol: 7, mu: -3.0, sigma: 0.25 });
                        cfgs.push(AgentCfg::Momentum { start: 20, n: n as u16, tick, p_cancel: p, vol: 5, decay: 1.0, demand: 100.0, scale: 0.5, ratio: 1.0, mu: 1.5, sigma: 0.5 });
                    }
                    if p == 0.3 && (t || tick <= 3) {
                        cfgs.push(AgentCfg::Momentum { start: 20, n: n as u16, tick, p_cancel: p, vol: 5, decay: 0.5, demand: 100.0, scale: 0.5, ratio: 0.5, mu: 0.0, sigma });
                    }
                }
            }
        }
    }
    let values = extreme_values();
    let n_draws = if t { 24 } else { 12 };
    let max_dev = 2;
    let rounds = 3usize;
    // job list: (multi, cfg, start)
    let mut jobs: Vec<(bool, usize, StartBook)> = Vec::new();
    for multi in [false, true] {
        for (ci, _) in cfgs.iter().enumerate() {
            for &s in &starts {
                if multi && !t && !matches!(s, StartBook::TwoSided | StartBook::Empty | StartBook::AskAtOneTick) {
                    continue;
                }
                jobs.push((multi, ci, s));
            }
        }
    }
    let next = AtomicU64::new(0);
    let scripts_per_job = AtomicU64::new(0);
    std::thread::scope(|sc| {
        for _ in 0..util::n_threads() {
            sc.spawn(|| loop {
                let i = next.fetch_add(1, Ordering::Relaxed) as usize;
                if i >= jobs.len() {
                    break;
                }
                let (multi, ci, start) = jobs[i];
                let c = &cfgs[ci];
                let seed = crate::report::seed() as u64 + 1;
                // the momentum agent needs a price change to act: the harness moves the foreign quotes between rounds
                let devs = scripts_with_deviations(seed, n_draws, &values, if matches!(c, AgentCfg::Random { .. }) || t { max_dev } else { 1 });
                scripts_per_job.store(devs.len() as u64, Ordering::Relaxed);
                // momentum agents get a fourth, flat round (the carried momentum term alone decides there)
                let rounds = if matches!(c, AgentCfg::Momentum { .. }) { rounds + 1 } else { rounds };
                for round in 0..rounds {
                    for d in &devs {
                        let mut scripts: Vec<Vec<Ans>> = vec![vec![]; rounds];
                        scripts[round] = d.clone();
                        run_scripted(&acc, multi, c, start, &scripts, seed);
                    }
                }
                // bounded enumeration of seeds with the library's own generator
                let n_seeds = if t { 16 } else { 4 };
                let steps = if t { 200 } else { 60 };
                for seed in 0..n_seeds {
                    run_seeded(&acc, multi, c, start, seed, steps);
                }
            });
        }
    });
    // large populations (trader ids beyond 16 bits for the random agents, beyond 8 bits for the others)
    let big: Vec<AgentCfg> = vec![
        AgentCfg::Random { n: 70_000, tick_range: (495, 506), vol_range: (1, 4), tick: 1, rate: 1.0 },
        AgentCfg::Random { n: 65_536, tick_range: (495, 506), vol_range: (1, 4), tick: 2, rate: 1.0 },
        AgentCfg::Noise { start: 10, n: 300, tick: 1, p_limit: 1.0, p_market: 1.0, p_cancel: 1.0, vol: 7, mu: 0.0, sigma: 1.0 },
        AgentCfg::Noise { start: 10, n: 65_535, tick: 1, p_limit: 1.0, p_market: 0.0, p_cancel: 0.0, vol: 7, mu: 0.0, sigma: 1.0 },
        AgentCfg::Momentum { start: 20, n: 300, tick: 1, p_cancel: 1.0, vol: 5, decay: 1.0, demand: 1000.0, scale: 0.5, ratio: 1.0, mu: 0.0, sigma: 1.0 },
    ];
    std::thread::scope(|sc| {
        for c in &big {
            for multi in [false, true] {
                let acc = &acc;
                sc.spawn(move || run_seeded(acc, multi, c, StartBook::TwoSided, 1, 4));
            }
        }
    });
    // agents whose resting orders are partly executed between their updates (one-unit market orders of the
    // harness): the orders are still theirs and still live - one live order per random agent, cancellation
    // with probability one, at most one new order per kind and trader
    {
        let before_pf = acc.partly_filled_seen.load(Ordering::Relaxed);
        let mut pf_cfgs: Vec<AgentCfg> = Vec::new();
        for tick in [1u32, 2] {
            for n in [1usize, 3] {
                pf_cfgs.push(AgentCfg::Random { n, tick_range: (495, 506), vol_range: (2, 5), tick, rate: 1.0 });
                pf_cfgs.push(AgentCfg::Random { n, tick_range: (495, 506), vol_range: (2, 5), tick, rate: 0.3 });
                for p_cancel in [1.0f32, 0.0, 0.3] {
                    pf_cfgs.push(AgentCfg::Noise { start: 10, n: n as u16, tick, p_limit: 1.0, p_market: 0.0, p_cancel, vol: 7, mu: 0.0, sigma: 1.0 });
                    pf_cfgs.push(AgentCfg::Momentum { start: 20, n: n as u16, tick, p_cancel, vol: 5, decay: 1.0, demand: 100.0, scale: 0.5, ratio: 1.0, mu: 0.0, sigma: 1.0 });
                }
            }
        }
        let seed = crate::report::seed() as u64 + 1;
        let devs = scripts_with_deviations(seed, n_draws, &values, 1);
        std::thread::scope(|sc| {
            for multi in [false, true] {
                for c in &pf_cfgs {
                    let (acc, devs) = (&acc, &devs);
                    sc.spawn(move || {
                        for start in [StartBook::Empty, StartBook::TwoSided] {
                            for round in 1..4usize {
                                for d in devs {
                                    let mut scripts: Vec<Vec<Ans>> = vec![vec![]; 4];
                                    scripts[round] = d.clone();
                                    run_scripted_opt(acc, multi, c, start, &scripts, seed, true);
                                }
                            }
                        }
                    });
                }
            }
        });
        // the same configurations with update called twice in a row and steps without an update
        std::thread::scope(|sc| {
            for multi in [false, true] {
                for c in &pf_cfgs {
                    let acc = &acc;
                    sc.spawn(move || {
                        for start in [StartBook::Empty, StartBook::TwoSided] {
                            for seed in 0..4u64 {
                                double_update(acc, multi, c, start, seed);
                            }
                        }
                    });
                }
            }
        });
        let pf = acc.partly_filled_seen.load(Ordering::Relaxed) - before_pf;
        out.set("partly_executed_agent_orders_at_update_time", json!(pf));
        if pf == 0 {
            out.machinery_errors.push("C16: the partial-fill scenarios never produced a partly executed agent order".into());
        }
    }
    for multi in [false, true] {
        for n in [1u16, 3] {
            for tick in [1u32, 2] {
                for p in [0.3f32, 0.5, 0.9] {
                    forced_cancellation(&acc, multi, n, tick, p);
                }
            }
        }
    }
    let execs = acc.execs.load(Ordering::Relaxed);
    let rounds_n = acc.rounds.load(Ordering::Relaxed);
    out.set("states", json!(execs));
    out.set("transitions", json!(rounds_n));
    out.set("traces_validated_against_impl", json!(execs));
    out.set("configurations", json!(cfgs.len() * starts.len() * 2));
    out.set("orders_submitted_by_agents", json!(acc.orders_seen.load(Ordering::Relaxed)));
    out.set("cancellations_by_agents", json!(acc.cancels_seen.load(Ordering::Relaxed)));
    out.set("forced_cancellation_scenarios", json!({"run": 24, "decided (calibration held)": acc.forced_decided.load(Ordering::Relaxed), "rule": "noise agents, 0 < p_cancel < 1: largest answers to the cancellation draws in round 2 (nothing cancelled), smallest in round 3: every live own order must be cancelled, also those that survived round 2"}));
    out.set(
        "bounds",
        json!({
            "ticks": "1..10", "probabilities": probs, "sigma": [1.0, 10.0], "traders": if t { "1..3" } else { "1,3" },
            "start_books": ["Empty", "BidsOnly", "AsksOnly", "TwoSided", "AskAtOneTick", "LowTwoSided", "BidNearTop"], "rounds": "3 (momentum: 4, the last one with an unchanged mid-price)",
            "scripted_draws_per_update": n_draws, "deviation_bound": max_dev, "extreme_values": values.iter().map(|v| format!("{:#x}", v)).collect::<Vec<_>>(),
            "scripts_per_round_and_configuration": scripts_per_job.load(Ordering::Relaxed),
            "large_populations": big.iter().map(|c| format!("{:?}", c)).collect::<Vec<_>>(),
            "seeded_runs": "bounded enumeration of seeds with Xoroshiro128** (labelled as such; not used to claim exhaustiveness)",
        }),
    );
    out.push("samples", json!({"agent": format!("{:?}", cfgs[5]), "start_book": "TwoSided", "update_scripts": [ans_json(&scripts_with_deviations(1, n_draws, &values, 1)[3]), [], []]}));
    if acc.orders_seen.load(Ordering::Relaxed) == 0 || acc.cancels_seen.load(Ordering::Relaxed) == 0 {
        out.machinery_errors.push("vacuous: agents submitted no orders or no cancellations".into());
    }
    for (sig, (detail, replay)) in acc.fails.into_inner().unwrap() {
        out.fail_other(&sig, detail, replay);
    }
    out.assumptions = vec![
        "generator answers beyond the scripted prefix come from a fixed SplitMix64 stream selected by VERIF_SEED".into(),
        "agent parameterisations are consistent with the environment (same tick size, non-empty ranges, finite distribution parameters)".into(),
    ];
    out.finish()
}
