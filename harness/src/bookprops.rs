//! Book-level properties decided by engine E1 (seqx): C01-C06, C12, C13 (and the reload
//! part of C07 lives in c07.rs).

use crate::ops::*;
use crate::report::Outcome;
use crate::seqx::*;
use serde_json::json;
use std::time::{Duration, Instant};

#[macro_export]
macro_rules! with_levels {
    ($l:expr, $f:ident, $($arg:expr),*) => {
        match $l {
            1 => $f::<1>($($arg),*), 2 => $f::<2>($($arg),*), 3 => $f::<3>($($arg),*),
            4 => $f::<4>($($arg),*), 5 => $f::<5>($($arg),*), 6 => $f::<6>($($arg),*),
            7 => $f::<7>($($arg),*), 8 => $f::<8>($($arg),*), 9 => $f::<9>($($arg),*),
            10 => $f::<10>($($arg),*), 11 => $f::<11>($($arg),*), 12 => $f::<12>($($arg),*),
            13 => $f::<13>($($arg),*), 14 => $f::<14>($($arg),*), 15 => $f::<15>($($arg),*),
            16 => $f::<16>($($arg),*), 17 => $f::<17>($($arg),*), 18 => $f::<18>($($arg),*),
            19 => $f::<19>($($arg),*), 20 => $f::<20>($($arg),*), 21 => $f::<21>($($arg),*),
            22 => $f::<22>($($arg),*), 23 => $f::<23>($($arg),*), 24 => $f::<24>($($arg),*),
            _ => panic!("LEVELS out of range"),
        }
    };
}

pub fn run_levels(levels: usize, cfg: &RunCfg) -> RunStats {
    with_levels!(levels, run, cfg)
}

pub fn replay_levels(levels: usize, cfg: &RunCfg) -> Vec<(usize, crate::seqx::Fail)> {
    with_levels!(levels, replay_history, cfg)
}

fn gate_levels(levels: usize, p: &Profile, steps: &[Step]) -> Result<(), String> {
    with_levels!(levels, determinism_gate, p, steps)
}

pub fn thorough(tier: &str) -> bool {
    tier == "thorough"
}

pub fn lim(bid: bool, price: u32, vol: u32) -> Step {
    Step { dt: 1, op: Op::Limit { bid, price, vol } }
}
pub fn mkt(bid: bool, vol: u32) -> Step {
    Step { dt: 1, op: Op::Market { bid, vol } }
}
fn st(op: Op) -> Step {
    Step { dt: 1, op }
}

/// Scripted non-initial start states (DESIGN §2.2) over a profile's three prices.
pub fn base_states(p: &Profile) -> Vec<(String, Vec<Step>)> {
    let (lo, mid, hi) = (p.prices[0], p.prices[p.prices.len() / 2], p.prices[p.prices.len() - 1]);
    let mut v = Vec::new();
    // two-sided book, queue of two at the best ask whose head is partially filled
    v.push((
        "two-sided-partial-head".to_string(),
        vec![
            lim(false, mid, 2),
            lim(false, mid, 1),
            lim(false, hi, 2),
            lim(true, lo, 2),
            mkt(true, 1),
        ],
    ));
    // crossed while trading was off, then re-enabled
    v.push((
        "crossed-then-enabled".to_string(),
        vec![
            st(Op::Disable),
            lim(false, lo, 2),
            lim(true, hi, 1),
            lim(true, mid, 2),
            st(Op::Enable),
        ],
    ));
    // replaced and reduced orders resting
    v.push((
        "replaced-and-reduced".to_string(),
        vec![
            lim(true, mid, 2),
            lim(true, mid, 2),
            st(Op::Modify { id: 0, price: None, vol: Some(2), ev: false }),
            st(Op::Modify { id: 1, price: None, vol: Some(1), ev: false }),
            lim(false, hi, 2),
            st(Op::Modify { id: 2, price: Some(hi), vol: None, ev: false }),
        ],
    ));
    // unplaced, rejected, cancelled, filled orders all present
    v.push((
        "dead-classes".to_string(),
        vec![
            st(Op::Create { bid: true, price: Some(lo), vol: 2 }),
            st(Op::Disable),
            mkt(false, 1),
            st(Op::Enable),
            lim(false, hi, 1),
            st(Op::Cancel { id: 2, ev: false }),
            lim(false, mid, 1),
            mkt(true, 1),
        ],
    ));
    v
}

/// Scripted start states with many orders: a long queue at one price on each side (fifteen
/// orders, partially swept), and a history of several hundred orders (ids beyond 255) most of
/// which are dead. Explored with `id_window` so that the branching stays small.
pub fn big_bases(p: &Profile) -> Vec<(String, Vec<Step>)> {
    let (lo, mid) = (p.prices[0], p.prices[p.prices.len() / 2]);
    let hi = p.prices[p.prices.len() - 1];
    let mut v = Vec::new();
    let mut q = Vec::new();
    for i in 0..15u32 {
        q.push(lim(false, mid, 1 + i % 3));
        q.push(lim(true, lo, 1 + (i + 1) % 3));
    }
    q.push(lim(false, hi, 2));
    q.push(mkt(true, 4));
    q.push(mkt(false, 2));
    v.push(("long-queues".to_string(), q));
    let mut h2 = Vec::new();
    let mut n = 0usize;
    for i in 0..130u32 {
        h2.push(lim(true, lo, 1 + i % 2));
        let bid_id = n;
        n += 1;
        if i % 3 != 0 {
            h2.push(st(Op::Cancel { id: bid_id, ev: false }));
        }
        h2.push(lim(false, mid, 1));
        n += 1;
        if i % 5 == 4 {
            h2.push(mkt(true, 3));
            n += 1;
        }
    }
    // sweep everything that is left, then a small fresh book whose ids are all beyond 255
    h2.push(mkt(true, 400));
    h2.push(mkt(false, 400));
    h2.push(lim(false, mid, 2));
    h2.push(lim(false, mid, 1));
    h2.push(lim(true, lo, 2));
    h2.push(lim(false, hi, 1));
    v.push(("hundreds-of-orders".to_string(), h2));
    v
}

pub const CLOCK_BOUNDARIES: [(&str, u64); 4] = [("2^32", (1 << 32) - 2), ("2^53", (1 << 53) - 2), ("2^63", (1 << 63) - 2), ("2^64-1", u64::MAX - 2)];

/// plans whose clock crosses 2^32 / 2^53 / 2^63 within the history or ends at the largest time
pub fn with_clock_boundaries(out: &mut Vec<Plan>, tweak: &dyn Fn(&mut Profile), levels: usize, depth: usize) {
    for (name, start) in CLOCK_BOUNDARIES {
        let mut p = Profile::clock_boundary(&format!("clock-across-{}", name), start);
        tweak(&mut p);
        out.push(plan(&format!("clock starting at {} - 2 (crossing / ending at the boundary)", name), p, levels, depth));
    }
}

pub fn with_big_bases(out: &mut Vec<Plan>, label: &str, profile: &Profile, levels: usize, depth: usize) {
    for (name, base) in big_bases(profile) {
        let mut p = profile.clone();
        p.name = format!("{}@{}", p.name, name);
        p.id_window = 6;
        out.push(Plan { label: format!("{}@{}", label, name), profile: p, levels, depth, base });
    }
    // hundreds of RESTING orders per side (one sweep executes more than 64, 128, 256 fills;
    // counters of events per level / per side / per call pass those thresholds): 300 asks at the
    // middle price and 300 bids at the lowest, then the alphabet with one volume that sweeps a
    // whole side and one that stops half-way. Two operations deep.
    {
        let (lo, mid) = (profile.prices[0], profile.prices[profile.prices.len() / 2]);
        if lo < mid {
            let mut base = Vec::new();
            for i in 0..300u32 {
                base.push(lim(false, mid, 1 + i % 2));
                base.push(lim(true, lo, 1 + (i + 1) % 2));
            }
            let mut p = profile.clone();
            p.name = format!("{}@deep-sides-300", p.name);
            p.id_window = 2;
            p.limit_vols = vec![1, 100, 1000];
            p.market_vols = vec![100, 1000];
            if !p.modify_vols.is_empty() {
                p.modify_vols = vec![1000];
            }
            p.offgrid_prices = vec![];
            out.push(Plan { label: format!("{}@300 resting orders per side, sweeps of 100 and 450 fills", label), profile: p, levels, depth: depth.min(2), base });
        }
    }
}

/// A deep, asymmetric ladder: 12 price levels per side around the profile's prices, with
/// different volumes and order counts per level, so that every published level is populated.
pub fn deep_ladder(p: &Profile) -> Vec<Step> {
    let tick = p.tick;
    let lo = p.prices[0] / tick;
    let hi = p.prices[p.prices.len() - 1] / tick;
    assert!(lo > 13);
    let mut v = Vec::new();
    for i in 0..12u32 {
        for k in 0..(i % 3 + 1) {
            v.push(lim(true, (lo - 1 - i) * tick, i + 1 + k));
        }
        for k in 0..((i + 1) % 3 + 1) {
            v.push(lim(false, (hi + 1 + i) * tick, 2 * i + 2 + k));
        }
    }
    v
}

fn cfg(label: &str, profile: Profile, depth: usize, monitors: &Monitors, base: Vec<Step>, deadline: Option<Instant>) -> RunCfg {
    RunCfg {
        label: label.to_string(),
        profile,
        depth,
        monitors: monitors.clone(),
        base,
        deadline,
    }
}

/// Run a list of (label, profile, levels, depth, base) under one monitor set.
pub struct Plan {
    pub label: String,
    pub profile: Profile,
    pub levels: usize,
    pub depth: usize,
    pub base: Vec<Step>,
}

pub fn plan(label: &str, profile: Profile, levels: usize, depth: usize) -> Plan {
    Plan { label: label.to_string(), profile, levels, depth, base: vec![] }
}

/// The same alphabet with "read everything" as an operation of its own: E1 replays a history
/// without a single getter call between the operations and reads once at the end; with this
/// operation every placement of reads inside a history is enumerated too (a structure refreshed
/// lazily by a getter, or a cache filled by one and not invalidated by a later mutation).
pub fn with_observe(out: &mut Vec<Plan>, label: &str, profile: &Profile, levels: usize, depth: usize) {
    let mut p = profile.clone();
    p.name = format!("{}+observe", p.name);
    p.observe_op = true;
    out.push(plan(&format!("{} + reading everything as an operation", label), p, levels, depth));
}

/// Price levels that coincide modulo 64 and modulo 65 536 (100, 164, 65 636): whatever indexes
/// levels by a few bits of the price confuses exactly these.
pub fn with_congruent_prices(out: &mut Vec<Plan>, label: &str, profile: &Profile, levels: usize, depth: usize) {
    let mut p = profile.clone();
    p.name = format!("{}@congruent-prices", p.name);
    p.tick = 1;
    p.prices = vec![100, 164, 65_636];
    p.offgrid_prices = vec![];
    out.push(plan(&format!("{}: prices 100, 164, 65636 (equal modulo 64 / 65536)", label), p, levels, depth));
}

/// Who owns the orders: everywhere else every order has a trader of its own; here one trader owns
/// every order (so both sides of every trade) or two traders alternate. The properties say nothing
/// that depends on the trader id, so whatever reads it must not change any behaviour.
pub fn with_traders(out: &mut Vec<Plan>, label: &str, profile: &Profile, levels: usize, depth: usize) {
    for (k, what) in [(1u32, "one trader owns every order"), (2, "two traders alternate")] {
        let mut p = profile.clone();
        p.name = format!("{}@traders{}", p.name, k);
        p.trader_base = 7;
        p.trader_mod = k;
        out.push(plan(&format!("{}: {}", label, what), p, levels, depth));
    }
}

pub fn with_bases(out: &mut Vec<Plan>, label: &str, profile: &Profile, levels: usize, depth: usize) {
    for (name, base) in base_states(profile) {
        let mut p = profile.clone();
        // base states use separate create, toggles and modify: make sure the profile's model
        // of "what is redundant" is not needed for them (they are applied verbatim)
        p.name = format!("{}@{}", p.name, name);
        // (from a populated book the interesting placements of reads are within reach: the twin
        // plan offers "read everything" as an operation)
        let mut po = p.clone();
        po.name = format!("{}+observe", po.name);
        po.observe_op = true;
        out.push(Plan { label: format!("{}@{} + reading as an operation", label, name), profile: po, levels, depth: depth.max(3), base: base.clone() });
        out.push(Plan {
            label: format!("{}@{}", label, name),
            profile: p,
            levels,
            depth,
            base,
        });
    }
}

pub fn execute(out: &mut Outcome, plans: Vec<Plan>, monitors: &Monitors, required_features: &[&str], budget_s: u64) {
    out.monitors = format!("{:?}", monitors);
    let deadline = Instant::now() + Duration::from_secs(budget_s);
    // determinism gate: one history replayed twice
    if let Some(pl) = plans.first() {
        let m = crate::refmodel::RefModel::new(pl.profile.start_time, pl.profile.tick, pl.profile.start_trading);
        let mut steps = pl.base.clone();
        let mut mm = m.clone();
        for s in &steps {
            apply_model(&mut mm, s);
        }
        for _ in 0..pl.depth.min(5) {
            let e = pl.profile.steps(&mm);
            if e.is_empty() {
                break;
            }
            let s = e[(steps.len() * 7 + 3) % e.len()].clone();
            apply_model(&mut mm, &s);
            steps.push(s);
        }
        let r = crate::util::subject(|| gate_levels(pl.levels, &pl.profile, &steps));
        if let Ok(Err(e)) = r {
            out.machinery_errors.push(e);
        }
    }
    let mut feats: std::collections::BTreeMap<String, u64> = Default::default();
    let mut configs = Vec::new();
    for pl in plans {
        let c = cfg(&pl.label, pl.profile.clone(), pl.depth, monitors, pl.base.clone(), Some(deadline));
        let stats = run_levels(pl.levels, &c);
        for (k, v) in &stats.features {
            *feats.entry(k.clone()).or_insert(0) += v;
        }
        configs.push(json!({"label": pl.label, "profile": pl.profile.to_json(), "levels": pl.levels, "depth": pl.depth, "base_len": pl.base.len()}));
        eprintln!(
            "  {:<40} L={:<2} depth={} nodes={:>10} live_books={:>6} fails={} {:.1}s{}",
            pl.label,
            pl.levels,
            pl.depth,
            stats.nodes,
            stats.live_keys.len(),
            stats.fails.len(),
            stats.wall_s,
            if stats.complete { "" } else { " (CAPPED)" }
        );
        out.absorb(&stats);
    }
    out.set("configurations", json!(configs));
    out.set(
        "feature_counters",
        json!(feats.iter().map(|(k, v)| (k.clone(), json!(v))).collect::<serde_json::Map<_, _>>()),
    );
    // vacuity guard: every feature the profile was designed to reach was reached
    if out.fails.is_empty() {
        for f in required_features {
            if feats.get(*f).copied().unwrap_or(0) == 0 {
                out.machinery_errors
                    .push(format!("vacuous exploration: feature '{}' never reached", f));
            }
        }
    }
}

// -----------------------------------------------------------------------------------------

pub fn c01(tier: &str) -> i32 {
    let mut out = Outcome::new("C01", tier, "model_checking");
    let mon = Monitors { reference: true, drain: true, ..Default::default() };
    let t = thorough(tier);
    let mut plans = Vec::new();
    let core1 = Profile::core("core-tick1", 1, 10);
    plans.push(plan("core tick 1", core1.clone(), 3, if t { 6 } else { 5 }));
    let core3 = Profile::core("core-tick3", 3, 1);
    plans.push(plan("core tick 3 (lowest level one tick above 0)", core3.clone(), 3, if t { 6 } else { 4 }));
    let mut ext = Profile::core("extended-create-place-events-clock01", 1, 10);
    ext.create_place = true;
    ext.events = true;
    ext.dt = DtMode::ZeroOneDisciplined;
    ext.limit_vols = vec![1, 2];
    plans.push(plan("extended: create/place, event route, clock {0,+1} disciplined", ext.clone(), 4, if t { 5 } else { 4 }));
    for tick in 1..=10u32 {
        let p = Profile::core(&format!("core-tick{}", tick), tick, 1);
        plans.push(plan(&format!("tick sweep {}", tick), p, 3, if t { 4 } else { 3 }));
    }
    for l in [1usize, 2, 10, 24] {
        plans.push(plan(&format!("levels {}", l), core1.clone(), l, if t { 4 } else { 3 }));
    }
    // "an incoming (or re-priced) order": modifications, directly and as process_event(Modify)
    let mut rp = Profile::core("core-repricing", 1, 10);
    rp.modify = true;
    rp.modify_prices = true;
    rp.modify_vols = vec![1, 3];
    plans.push(plan("core + modify (re-priced orders match by the same rules)", rp.clone(), 3, if t { 5 } else { 4 }));
    with_congruent_prices(&mut plans, "core + modify", &rp, 3, if t { 5 } else { 4 });
    with_traders(&mut plans, "core + modify", &rp, 3, if t { 5 } else { 4 });
    {
        let mut ob = rp.clone();
        ob.limit_vols = vec![2];
        ob.market_vols = vec![3];
        ob.modify_vols = vec![];
        with_observe(&mut plans, "three prices, re-pricing modifies", &ob, 3, if t { 6 } else { 5 });
    }
    let mut rpe = rp.clone();
    rpe.name = "core-repricing-events-tick3".into();
    rpe.tick = 3;
    rpe.prices = vec![3, 6, 9];
    rpe.events = true;
    rpe.modify_vols = vec![3];
    plans.push(plan("tick 3: modify through process_event", rpe, 3, if t { 4 } else { 3 }));
    with_bases(&mut plans, "core tick 1", &core1, 3, if t { 5 } else { 3 });
    with_bases(&mut plans, "core + modify", &rp, 3, if t { 4 } else { 2 });
    with_big_bases(&mut plans, "core + modify", &rp, 3, if t { 3 } else { 2 });
    with_clock_boundaries(&mut plans, &|_| {}, 3, if t { 5 } else { 4 });
    let mut co = Profile::coincidences("coincidences");
    co.modify = true;
    co.modify_prices = true;
    co.modify_vols = vec![1, 3];
    plans.push(plan("prices = volumes = ids = trader ids (1,2,3), clock from 1", co, 3, if t { 5 } else { 4 }));
    // the highest valid grid prices for tick sizes that do not divide 2^32-1
    for tick in [2u32, 10] {
        let top = (u32::MAX - 1) / tick;
        let mut tb = Profile::core(&format!("top-of-grid-tick{}", tick), tick, top - 2);
        tb.modify = true;
        tb.modify_prices = true;
        tb.modify_vols = vec![];
        plans.push(plan(&format!("tick {}: the three highest grid prices", tick), tb, 3, if t { 5 } else { 4 }));
    }
    // large magnitudes: times beyond 2^32, prices beyond 2^31, volumes beyond 2^16 and 2^31
    let mut mg = Profile::magnitude("magnitudes");
    mg.modify = true;
    mg.modify_prices = true;
    mg.modify_vols = vec![70_001];
    plans.push(plan("large times, prices and volumes", mg, 3, if t { 5 } else { 4 }));
    execute(
        &mut out,
        plans,
        &mon,
        &["op-with-trades", "multi-fill-sweep", "partial-fill-of-resting", "cancel-of-partially-filled", "three-queued-at-one-price", "modify-that-trades", "modify-requeue"],
        if t { 3000 } else { 50 },
    );
    crate::absx::run_closure(
        &mut out,
        &mon,
        &crate::absx::ClosureCfg { label: "C01: core actions + create/place", max_rest: if t { 4 } else { 3 }, max_vol: if t { 3 } else { 2 }, modify: false, toggles: false, create: true, redundant: false, ties: false, prices: 3, reload_depth: 0, suffix_k: 0 },
        t,
    );
    crate::bulk::long_queues(&mut out, false, t);
    // re-pricing / re-sizing modifies among the actions, and the classes of the last two operations
    // in the key (a book entered by a modification is expanded separately)
    crate::absx::run_closure(
        &mut out,
        &mon,
        &crate::absx::ClosureCfg { label: "C01: + modifies, last two operation classes in the key", max_rest: if t { 3 } else { 2 }, max_vol: 2, modify: true, toggles: false, create: true, redundant: false, ties: false, prices: 3, reload_depth: 0, suffix_k: 2 },
        false,
    );
    // long queues: one price level, up to four (thorough five) resting orders per side, re-queuing modifies
    crate::absx::run_closure(
        &mut out,
        &mon,
        &crate::absx::ClosureCfg { label: "C01: one price, queues of up to four orders, re-queuing modifies, toggles", max_rest: if t { 5 } else { 4 }, max_vol: 2, modify: true, toggles: true, create: false, redundant: false, ties: false, prices: 1, reload_depth: 0, suffix_k: 1 },
        false,
    );
    out.assumptions = vec![
        "reference model (harness/src/refmodel.rs) is the definition of price-time priority".into(),
        "prices beyond three levels / volumes beyond the small set behave like the explored ones (no magnitude-dependent control flow below 2^32)".into(),
        "clock discipline: histories queuing two orders at one price with one timestamp belong to C05".into(),
    ];
    out.finish()
}

pub fn c02(tier: &str) -> i32 {
    let mut out = Outcome::new("C02", tier, "model_checking");
    let mon = Monitors { views: true, ..Default::default() };
    let t = thorough(tier);
    let mut plans = Vec::new();
    let mk = |name: &str, tick: u32, base: u32| {
        let mut p = Profile::core(name, tick, base);
        p.modify = true;
        p.modify_prices = true;
        p.modify_vols = vec![1, 3];
        p.toggles = true;
        p.reload_modes = vec![0];
        p
    };
    for (tick, l) in [(1u32, 3usize), (1, 10), (3, 3), (3, 10)] {
        plans.push(plan(
            &format!("main tick {} levels {}", tick, l),
            mk(&format!("views-tick{}", tick), tick, 1),
            l,
            if t { 5 } else { 4 },
        ));
    }
    // configuration sweep: every tick 1..10 x every LEVELS 1..24, lowest price one tick above 0
    for tick in 1..=10u32 {
        for l in 1..=24usize {
            let mut p = mk(&format!("sweep-tick{}", tick), tick, 1);
            p.limit_vols = vec![1];
            p.market_vols = vec![2];
            p.modify_vols = vec![2];
            plans.push(plan(&format!("sweep tick {} levels {}", tick, l), p, l, if t { 3 } else { 2 }));
        }
    }
    // price band just under 2^32-1 so that ask level walks pass the top
    for tick in [1u32, 3, 7] {
        let top = (u32::MAX - 1) / tick;
        let mut p = mk(&format!("top-band-tick{}", tick), tick, top - 2);
        p.prices = vec![(top - 2) * tick, (top - 1) * tick, top * tick];
        if p.prices[2] == u32::MAX {
            p.prices = vec![(top - 3) * tick, (top - 2) * tick, (top - 1) * tick];
        }
        for l in [3usize, 10] {
            plans.push(plan(&format!("top band tick {} levels {}", tick, l), p.clone(), l, if t { 4 } else { 3 }));
        }
    }
    let main = mk("views-tick1", 1, 10);
    with_congruent_prices(&mut plans, "main", &main, 3, if t { 5 } else { 4 });
    with_traders(&mut plans, "main", &main, 3, if t { 4 } else { 3 });
    // clocks that start in (or cross into) the upper half of the range, at 2^32, 2^53 and at the end
    with_clock_boundaries(&mut plans, &|_| {}, 3, if t { 4 } else { 3 });
    {
        let mut ob = main.clone();
        ob.prices = vec![10, 11];
        ob.limit_vols = vec![2];
        ob.market_vols = vec![1];
        ob.modify_vols = vec![1];
        with_observe(&mut plans, "two prices, modify, toggles, reload", &ob, 10, if t { 6 } else { 5 });
    }
    with_bases(&mut plans, "main tick 1", &main, 3, if t { 4 } else { 2 });
    // separate create / place with every request (modify, cancel, reload) also aimed at the
    // created-but-unplaced order
    for (tick, l) in [(1u32, 3usize), (2, 4)] {
        let mut p = mk(&format!("views-create-place-tick{}", tick), tick, 5);
        p.create_place = true;
        p.redundant_place = true;
        p.prices = vec![5 * tick, 6 * tick];
        p.limit_vols = vec![2];
        p.market_vols = vec![1];
        p.modify_vols = vec![1];
        plans.push(plan(&format!("create/place separately, modify on unplaced orders, tick {}", tick), p, l, if t { 5 } else { 4 }));
    }
    for (tick, l) in [(1u32, 10usize), (3, 10), (1, 24), (2, 5)] {
        let mut p = mk(&format!("deep-ladder-tick{}", tick), tick, 20);
        p.limit_vols = vec![1];
        p.market_vols = vec![2, 40];
        p.modify_vols = vec![1];
        p.name = format!("deep-ladder-tick{}", tick);
        let base = deep_ladder(&p);
        plans.push(Plan { label: format!("deep 12-level ladder, tick {} levels {}", tick, l), profile: p, levels: l, depth: if t { 3 } else { 2 }, base });
    }
    let mut mg = Profile::magnitude("views-magnitudes");
    mg.modify = true;
    mg.modify_prices = true;
    mg.modify_vols = vec![70_001];
    mg.toggles = true;
    mg.reload_modes = vec![0];
    plans.push(plan("large times, prices and volumes", mg.clone(), 3, if t { 4 } else { 3 }));
    with_big_bases(&mut plans, "main tick 1", &main, 10, if t { 3 } else { 2 });
    execute(
        &mut out,
        plans,
        &mon,
        &["op-with-trades", "state-crossed", "op:reload", "modify-requeue"],
        if t { 3000 } else { 50 },
    );
    crate::bulk::periodic_staleness(&mut out, t);
    crate::bulk::deep_ladders(&mut out, t);
    crate::bulk::long_queues(&mut out, false, false);
    // unbounded depth: closure over abstract book states (the reference engine only supplies the
    // state identity; the oracle stays the model-free recomputation from get_orders()), with
    // snapshot reloads among the actions and the class of the last operation in the key
    crate::absx::run_closure(
        &mut out,
        &mon,
        &crate::absx::ClosureCfg { label: "C02: views recomputed in every reachable book state (modify, toggles, create/place, reload)", max_rest: if t { 3 } else { 2 }, max_vol: 2, modify: true, toggles: true, create: true, redundant: false, ties: false, prices: 3, reload_depth: 1, suffix_k: if t { 2 } else { 1 } },
        false,
    );
    // long queues at one price: up to four (thorough five) resting orders per side on a single price level,
    // re-queuing modifies and snapshot reloads among the actions (queue order != id order at a reload)
    crate::absx::run_closure(
        &mut out,
        &mon,
        &crate::absx::ClosureCfg { label: "C02: one price, queues of up to four orders, re-queuing modifies, toggles, reloads", max_rest: if t { 5 } else { 4 }, max_vol: 2, modify: true, toggles: true, create: false, redundant: false, ties: false, prices: 1, reload_depth: 2, suffix_k: 1 },
        false,
    );
    out.assumptions = vec![
        "recomputation uses get_orders() only: an order is resting iff its status is Active".into(),
    ];
    out.finish()
}

pub fn c03(tier: &str) -> i32 {
    let mut out = Outcome::new("C03", tier, "model_checking");
    let mon = Monitors { ledger: true, ..Default::default() };
    let t = thorough(tier);
    let mut plans = Vec::new();
    let mut p = Profile::core("ledger", 1, 10);
    p.modify = true;
    p.modify_prices = true;
    p.modify_vols = vec![1, 3];
    p.toggles = true;
    p.reset_tv = true;
    plans.push(plan("core + modify + toggles + counter reset, tick 1", p.clone(), 3, if t { 5 } else { 4 }));
    with_traders(&mut plans, "core + modify + toggles + counter reset", &p, 3, if t { 5 } else { 4 });
    {
        // the log must come back from a snapshot exactly as it was (also when a partly filled order has since moved)
        let mut rl = p.clone();
        rl.name = "ledger-reload".into();
        rl.prices = vec![10, 11];
        rl.limit_vols = vec![2];
        rl.market_vols = vec![1];
        rl.modify_vols = vec![3];
        rl.toggles = false;
        rl.reload_modes = vec![0];
        plans.push(plan("two prices, re-pricing modifies, in-memory reload as an operation", rl, 3, if t { 6 } else { 5 }));
    }
    {
        let mut ob = p.clone();
        ob.prices = vec![10, 11];
        ob.limit_vols = vec![2];
        ob.market_vols = vec![1];
        ob.modify_vols = vec![1];
        ob.toggles = false;
        with_observe(&mut plans, "two prices, modify, counter reset", &ob, 3, if t { 6 } else { 5 });
    }
    let mut q = Profile::core("ledger-core", 1, 10);
    q.reset_tv = true;
    plans.push(plan("core + counter reset", q, 3, if t { 6 } else { 5 }));
    let mut p3 = p.clone();
    p3.tick = 3;
    p3.prices = vec![3, 6, 9];
    p3.name = "ledger-tick3".into();
    plans.push(plan("core + modify + toggles, tick 3", p3, 3, if t { 4 } else { 3 }));
    let mut pe = p.clone();
    pe.name = "ledger-clock01".into();
    pe.dt = DtMode::ZeroOneDisciplined;
    pe.events = true;
    pe.toggles = false;
    plans.push(plan("modify via events, clock {0,+1} disciplined", pe, 3, if t { 4 } else { 3 }));
    // separate create / place with every request also aimed at the still-unplaced order (a
    // re-priced order must trade at the price its record shows)
    let mut cp = Profile::core("ledger-create-place", 1, 10);
    cp.create_place = true;
    cp.redundant_place = true;
    cp.modify = true;
    cp.modify_prices = true;
    cp.modify_vols = vec![3];
    cp.limit_vols = vec![1];
    cp.market_vols = vec![2];
    plans.push(plan("separate create/place, modifies aimed at unplaced orders too", cp.clone(), 3, if t { 6 } else { 5 }));
    cp.name = "ledger-create-place-events".into();
    cp.events = true;
    cp.toggles = true;
    cp.prices = vec![10, 11];
    plans.push(plan("same through process_event, with toggles", cp, 3, if t { 5 } else { 4 }));
    with_bases(&mut plans, "ledger", &p, 3, if t { 4 } else { 2 });
    with_big_bases(&mut plans, "ledger", &p, 3, if t { 3 } else { 2 });
    let mut mg = Profile::magnitude("ledger-magnitudes");
    mg.modify = true;
    mg.modify_prices = true;
    mg.modify_vols = vec![70_001];
    mg.toggles = true;
    plans.push(plan("large times, prices and volumes", mg, 3, if t { 5 } else { 4 }));
    with_clock_boundaries(&mut plans, &|p| p.reset_tv = true, 3, if t { 5 } else { 4 });
    let mut co = Profile::coincidences("ledger-coincidences");
    co.modify = true;
    co.modify_prices = true;
    co.modify_vols = vec![1, 3];
    co.reset_tv = true;
    plans.push(plan("prices = volumes = ids = trader ids (1,2,3), clock from 1", co, 3, if t { 5 } else { 4 }));
    // several counter windows of 3e9 each: the volume traded over the life of the book passes
    // 2^32 while every window between two resets stays below it (one price, one volume: deep)
    let mut dw = Profile::magnitude("ledger-counter-windows");
    dw.prices = vec![2_147_483_647];
    dw.limit_vols = vec![3_000_000_000];
    dw.market_vols = vec![];
    plans.push(plan("counter windows of 3e9 each, lifetime volume beyond 2^32", dw, 3, if t { 8 } else { 6 }));
    execute(
        &mut out,
        plans,
        &mon,
        &["op-with-trades", "modify-that-trades", "multi-fill-sweep", "op:reset-trade-vol", "modify-in-place-reduction"],
        if t { 3000 } else { 50 },
    );
    // unbounded depth: the ledger audit on every transition of the closure over abstract book states
    crate::absx::run_closure(
        &mut out,
        &mon,
        &crate::absx::ClosureCfg { label: "C03: ledger audit in every reachable book state (modify, toggles, create/place)", max_rest: if t { 3 } else { 2 }, max_vol: 2, modify: true, toggles: true, create: true, redundant: false, ties: false, prices: 3, reload_depth: 0, suffix_k: if t { 2 } else { 1 } },
        false,
    );
    out.assumptions = vec!["the audit uses the log, get_orders() and the volumes the harness itself submitted".into()];
    out.finish()
}

pub fn c04(tier: &str) -> i32 {
    let mut out = Outcome::new("C04", tier, "model_checking");
    // (views: "every other observable unchanged" is judged on a snapshot whose views must first of
    // all be the book's own - a stale view that a redundant request happens to refresh shows here)
    let mon = Monitors { life: true, views: true, ..Default::default() };
    let t = thorough(tier);
    let mut plans = Vec::new();
    let mut p = Profile::core("lifecycle", 1, 10);
    p.create_place = true;
    p.redundant_place = true;
    p.modify = true;
    p.modify_prices = true;
    p.modify_vols = vec![1, 3];
    p.toggles = true;
    p.set_time_op = true;
    p.prices = vec![10, 11];
    p.limit_vols = vec![2];
    p.market_vols = vec![1, 3];
    plans.push(plan("place/cancel/modify on every id in every status, toggles, set_time", p.clone(), 3, if t { 5 } else { 4 }));
    with_traders(&mut plans, "every request on every id in every status", &p, 3, if t { 4 } else { 3 });
    for tick in [2u32, 10] {
        // tick sizes that do not divide 2^32-1 (the price a buy market order carries is off their grid)
        let mut q = p.clone();
        q.name = format!("lifecycle-tick{}", tick);
        q.tick = tick;
        q.prices = vec![10 * tick, 11 * tick];
        q.set_time_op = false;
        q.modify_vols = vec![1];
        plans.push(plan(&format!("tick {}: every request on every id, toggles", tick), q, 3, if t { 4 } else { 3 }));
    }
    let mut pe = p.clone();
    pe.name = "lifecycle-events".into();
    pe.events = true;
    pe.modify_prices = false;
    pe.set_time_op = false;
    plans.push(plan("same through process_event", pe, 3, if t { 4 } else { 3 }));
    let mut core = Profile::core("lifecycle-core", 1, 10);
    core.set_time_op = true;
    plans.push(plan("core + set_time", core, 3, if t { 6 } else { 5 }));
    {
        let mut ob = p.clone();
        ob.modify_vols = vec![1];
        ob.market_vols = vec![1];
        ob.set_time_op = false;
        with_observe(&mut plans, "every request on every id", &ob, 3, if t { 6 } else { 5 });
    }
    with_bases(&mut plans, "lifecycle", &p, 3, if t { 4 } else { 2 });
    with_big_bases(&mut plans, "lifecycle", &p, 3, if t { 3 } else { 2 });
    let mut mg = Profile::magnitude("lifecycle-magnitudes");
    mg.create_place = true;
    mg.redundant_place = true;
    mg.set_time_op = true;
    mg.prices = vec![2_147_483_647, 2_147_483_648];
    mg.limit_vols = vec![1, 3_000_000_000];
    plans.push(plan("large times (set_time by 2^33), prices and volumes", mg, 3, if t { 5 } else { 4 }));
    with_clock_boundaries(
        &mut plans,
        &|p| {
            p.create_place = true;
            p.redundant_place = true;
            p.set_time_op = true;
            p.limit_vols = vec![2];
            p.market_vols = vec![1];
        },
        3,
        if t { 5 } else { 4 },
    );
    let mut co = Profile::coincidences("lifecycle-coincidences");
    co.create_place = true;
    co.redundant_place = true;
    co.modify = true;
    co.modify_prices = true;
    co.modify_vols = vec![3];
    co.prices = vec![1, 2];
    co.limit_vols = vec![1, 2];
    plans.push(plan("prices = volumes = ids = trader ids, clock from 1", co, 3, if t { 5 } else { 4 }));
    // a reloaded book is a book: terminal orders must stay terminal after a snapshot round trip too
    // (one price, three orders at most: deep enough for re-queue, reload, cancel, aggressor)
    let mut rl = Profile::core("lifecycle-reload", 1, 10);
    rl.prices = vec![10];
    rl.limit_vols = vec![2];
    rl.market_vols = vec![1];
    rl.modify = true;
    rl.modify_vols = vec![3];
    rl.reload_modes = vec![0];
    rl.max_orders = 4;
    plans.push(plan("one price, re-queuing modifies, snapshot reload as an operation", rl, 3, if t { 8 } else { 7 }));
    // C04 has no clock-discipline clause: the same requests with the clock NOT advanced
    let mut pt = p.clone();
    pt.name = "lifecycle-ties".into();
    pt.dt = DtMode::ZeroOneFree;
    pt.set_time_op = false;
    pt.toggles = false;
    pt.market_vols = vec![1];
    plans.push(plan("every request on every id, clock advance {0,+1} everywhere", pt, 3, if t { 5 } else { 4 }));
    let mut ptc = Profile::core("lifecycle-ties-core", 1, 10);
    ptc.dt = DtMode::ZeroOneFree;
    ptc.modify = true;
    ptc.modify_prices = true;
    ptc.modify_vols = vec![];
    ptc.prices = vec![10, 11];
    ptc.limit_vols = vec![2];
    ptc.market_vols = vec![1];
    plans.push(plan("core + re-pricing modifies, clock advance {0,+1}", ptc, 3, if t { 6 } else { 5 }));
    execute(
        &mut out,
        plans,
        &mon,
        &["redundant-place", "redundant-cancel", "redundant-modify", "market-rejected", "op:set-time", "cancel-of-partially-filled"],
        if t { 3000 } else { 50 },
    );
    crate::absx::run_closure(
        &mut out,
        &mon,
        &crate::absx::ClosureCfg { label: "C04: redundant requests on every dead class in every state", max_rest: if t { 3 } else { 2 }, max_vol: 2, modify: true, toggles: true, create: true, redundant: true, ties: false, prices: 3, reload_depth: 0, suffix_k: 0 },
        t,
    );
    out.finish()
}

pub fn c06(tier: &str) -> i32 {
    let mut out = Outcome::new("C06", tier, "model_checking");
    let mon = Monitors { reference: true, drain: true, life: true, ..Default::default() };
    let t = thorough(tier);
    let mut plans = Vec::new();
    let mut p = Profile::core("modify", 1, 10);
    p.limit_vols = vec![2, 3];
    p.market_vols = vec![1, 4];
    p.modify = true;
    p.modify_prices = true;
    p.modify_vols = vec![1, 2, 3, 4];
    plans.push(plan("modify(price in {-, each grid price}, vol in {-,1,2,3,4}) on every id", p.clone(), 3, if t { 5 } else { 4 }));
    let mut p2 = p.clone();
    p2.name = "modify-2prices".into();
    p2.prices = vec![10, 11];
    p2.limit_vols = vec![2];
    p2.market_vols = vec![1];
    p2.modify_vols = vec![1, 2, 3];
    plans.push(plan("reduced alphabet, deeper", p2.clone(), 3, if t { 6 } else { 5 }));
    with_traders(&mut plans, "reduced alphabet", &p2, 3, if t { 5 } else { 4 });
    for tick in [2u32, 10] {
        // the highest valid grid prices for tick sizes that do not divide 2^32-1 (re-pricing onto the last one)
        let top = (u32::MAX - 1) / tick;
        let mut tb = p2.clone();
        tb.name = format!("modify-top-of-grid-tick{}", tick);
        tb.tick = tick;
        tb.prices = vec![(top - 1) * tick, top * tick];
        tb.modify_vols = vec![1, 3];
        plans.push(plan(&format!("tick {}: the two highest grid prices", tick), tb, 3, if t { 5 } else { 4 }));
    }
    {
        let mut cg = p2.clone();
        cg.modify_vols = vec![1];
        with_congruent_prices(&mut plans, "modify", &cg, 3, if t { 5 } else { 4 });
    }
    {
        let mut ob = p2.clone();
        ob.modify_vols = vec![1, 3];
        with_observe(&mut plans, "reduced alphabet", &ob, 3, if t { 6 } else { 5 });
        let mut ob3 = p2.clone();
        ob3.prices = vec![10, 11, 12];
        ob3.modify_vols = vec![];
        ob3.market_vols = vec![];
        with_observe(&mut plans, "three prices, price-only modifies", &ob3, 3, if t { 6 } else { 5 });
    }
    let mut p3 = p.clone();
    p3.name = "modify-tick3-events".into();
    p3.tick = 3;
    p3.prices = vec![3, 6, 9];
    p3.events = true;
    p3.modify_vols = vec![1, 3];
    plans.push(plan("tick 3, through process_event", p3, 3, if t { 4 } else { 3 }));
    // "as if newly arrived" while nothing can trade: a book constructed with trading off (a
    // re-priced order rests at its new price, also through the opposite touch), and the flag
    // switched mid-history
    let mut po = p2.clone();
    po.name = "modify-trading-off".into();
    po.start_trading = false;
    po.prices = vec![10, 11, 12];
    po.modify_vols = vec![1, 3];
    plans.push(plan("book constructed with trading off: every modify shape", po.clone(), 3, if t { 5 } else { 4 }));
    po.name = "modify-toggles".into();
    po.prices = vec![10, 11];
    po.toggles = true;
    plans.push(plan("trading off at start, toggles as operations", po, 3, if t { 6 } else { 5 }));
    with_bases(&mut plans, "modify", &p, 3, if t { 4 } else { 2 });
    with_big_bases(&mut plans, "modify", &p, 3, 2);
    let mut mg = Profile::magnitude("modify-magnitudes");
    mg.modify = true;
    mg.modify_prices = true;
    mg.modify_vols = vec![1, 70_001, 2_147_483_652];
    mg.prices = vec![2_147_483_647, 2_147_483_648];
    mg.limit_vols = vec![70_000, 2_000_000_000, 3_000_000_000];
    plans.push(plan("large times, prices and volumes", mg, 3, if t { 5 } else { 4 }));
    execute(
        &mut out,
        plans,
        &mon,
        &["modify-in-place-reduction", "modify-requeue", "modify-that-trades", "redundant-modify", "three-queued-at-one-price"],
        if t { 3000 } else { 50 },
    );
    crate::absx::run_closure(
        &mut out,
        &mon,
        &crate::absx::ClosureCfg { label: "C06: every modify shape on every queue rank, trading flag in the key", max_rest: 3, max_vol: if t { 3 } else { 2 }, modify: true, toggles: true, create: false, redundant: false, ties: false, prices: 3, reload_depth: 0, suffix_k: 0 },
        t,
    );
    crate::absx::run_closure(
        &mut out,
        &mon,
        &crate::absx::ClosureCfg { label: "C06: every modify shape, last two operation classes in the key", max_rest: 2, max_vol: if t { 3 } else { 2 }, modify: true, toggles: true, create: false, redundant: false, ties: false, prices: 3, reload_depth: 0, suffix_k: 2 },
        false,
    );
    crate::absx::run_closure(
        &mut out,
        &mon,
        &crate::absx::ClosureCfg { label: "C06: one price, queues of up to four orders, every modify shape on every seat", max_rest: if t { 5 } else { 4 }, max_vol: 2, modify: true, toggles: true, create: false, redundant: false, ties: false, prices: 1, reload_depth: 0, suffix_k: 1 },
        false,
    );
    out.assumptions = vec!["reference model encodes the statement: only (no price, smaller volume) keeps the seat".into()];
    out.finish()
}

pub fn c12(tier: &str) -> i32 {
    let mut out = Outcome::new("C12", tier, "model_checking");
    // (views: the published per-level data must account for the resting volume at the levels
    // the orders' own prices say - the last clause of the property)
    let mon = Monitors { grid: true, views: true, ..Default::default() };
    let t = thorough(tier);
    let mut plans = Vec::new();
    for tick in [2u32, 3, 5, 10] {
        let mut p = Profile::core(&format!("grid-tick{}", tick), tick, 2);
        p.limit_vols = vec![1, 2];
        p.market_vols = vec![2];
        p.modify = true;
        p.modify_prices = true;
        p.modify_vols = vec![1];
        p.toggles = tick == 2;
        // off-grid neighbours of grid values
        p.offgrid_prices = vec![2 * tick + 1, 4 * tick - 1];
        if u32::MAX % tick != 0 {
            // the largest representable price is off the grid for this tick size
            p.offgrid_prices.push(u32::MAX);
            // and so is the complement 2^32-1-q of every grid price q (the form in which bid
            // prices are held inside the priority index)
            let comps: Vec<u32> = p.prices.iter().map(|q| u32::MAX - q).collect();
            p.offgrid_prices.extend(comps);
        }
        plans.push(plan(
            &format!("tick {}: on/off-grid create, create_and_place, modify", tick),
            p,
            4,
            if t { 5 } else { 4 },
        ));
    }
    // the two ends of the price axis are grid prices too (0 always, 2^32-1 when the tick divides it)
    for tick in [1u32, 5] {
        let mut p = Profile::core(&format!("grid-extremes-tick{}", tick), tick, 2);
        p.prices = vec![0, tick, u32::MAX - tick, u32::MAX];
        p.limit_vols = vec![2];
        p.market_vols = vec![1];
        p.modify = true;
        p.modify_prices = true;
        p.modify_vols = vec![];
        if tick > 1 {
            p.offgrid_prices = vec![1, u32::MAX - 1];
        }
        plans.push(plan(&format!("tick {}: limit prices 0 and 2^32-1 (on the grid)", tick), p, 4, if t { 5 } else { 4 }));
    }
    let mut p = Profile::core("grid-tick2-events", 2, 2);
    p.modify = true;
    p.modify_prices = true;
    p.events = true;
    p.create_place = true;
    p.offgrid_prices = vec![5];
    p.limit_vols = vec![1];
    p.market_vols = vec![2];
    plans.push(plan("tick 2: event route + separate create/place", p, 3, if t { 5 } else { 4 }));
    execute(&mut out, plans, &mon, &["op:offgrid-create", "op:modify", "modify-requeue"], if t { 3000 } else { 50 });
    // many populated levels per side: the published levels must account for the resting volume
    crate::bulk::deep_ladders(&mut out, t);
    crate::marketx::c12_market_part(&mut out, t);
    crate::envprops::c12_env_part(&mut out, t);
    out.finish()
}

pub fn c13(tier: &str) -> i32 {
    let mut out = Outcome::new("C13", tier, "model_checking");
    let mon = Monitors { reference: true, notrade: true, drain: true, ..Default::default() };
    let t = thorough(tier);
    let mut plans = Vec::new();
    let mut p = Profile::core("toggles", 1, 10);
    p.toggles = true;
    p.modify = true;
    p.modify_prices = true;
    p.modify_vols = vec![3];
    plans.push(plan("core + modify + toggles, trading on at start", p.clone(), 3, if t { 5 } else { 4 }));
    with_traders(&mut plans, "core + modify + toggles", &p, 3, if t { 4 } else { 3 });
    let mut poff = p.clone();
    poff.name = "toggles-start-off".into();
    poff.start_trading = false;
    plans.push(plan("core + modify + toggles, trading off at start", poff, 3, if t { 5 } else { 4 }));
    let mut pc = Profile::core("toggles-core", 1, 10);
    pc.toggles = true;
    plans.push(plan("core + toggles", pc, 3, if t { 6 } else { 5 }));
    {
        let mut ob = p.clone();
        ob.prices = vec![10, 11];
        ob.limit_vols = vec![2];
        ob.market_vols = vec![1];
        ob.modify_vols = vec![];
        with_observe(&mut plans, "two prices, re-pricing modifies, toggles", &ob, 3, if t { 6 } else { 5 });
    }
    // long histories in a minimal alphabet (one volume, no market orders): books crossed by a
    // placement or by a modification while trading is off, re-enabled, then every re-pricing -
    // also one that moves away from the touch but still crosses
    for start in [true, false] {
        let mut pd = Profile::core(if start { "toggles-deep" } else { "toggles-deep-start-off" }, 1, 10);
        pd.toggles = true;
        pd.modify = true;
        pd.modify_prices = true;
        pd.modify_vols = vec![];
        pd.limit_vols = vec![1];
        pd.market_vols = vec![];
        pd.start_trading = start;
        pd.max_orders = 3;
        plans.push(plan(
            &format!("one volume, three prices, at most three orders, re-pricing + toggles, trading {} at start", if start { "on" } else { "off" }),
            pd,
            3,
            if t { 8 } else { 6 },
        ));
    }
    with_bases(&mut plans, "toggles", &p, 3, if t { 4 } else { 2 });
    for tick in [2u32, 10] {
        let top = (u32::MAX - 1) / tick;
        let mut tb = Profile::core(&format!("toggles-top-of-grid-tick{}", tick), tick, top - 2);
        tb.prices = vec![(top - 1) * tick, top * tick];
        tb.toggles = true;
        tb.start_trading = tick == 2;
        tb.limit_vols = vec![2];
        tb.market_vols = vec![3];
        plans.push(plan(&format!("tick {}: toggles at the two highest grid prices", tick), tb, 3, if t { 5 } else { 4 }));
    }
    let mut mg = Profile::magnitude("toggles-magnitudes");
    mg.toggles = true;
    mg.prices = vec![2_147_483_647, 2_147_483_648];
    mg.limit_vols = vec![1, 3_000_000_000];
    plans.push(plan("large times, prices and volumes", mg, 3, if t { 5 } else { 4 }));
    execute(
        &mut out,
        plans,
        &mon,
        &["market-rejected", "state-crossed", "op:enable", "op:disable", "op-with-trades"],
        if t { 3000 } else { 50 },
    );
    crate::absx::run_closure(
        &mut out,
        &mon,
        &crate::absx::ClosureCfg { label: "C13: trading flag in the key (crossed books reachable)", max_rest: if t { 3 } else { 2 }, max_vol: 2, modify: true, toggles: true, create: false, redundant: false, ties: false, prices: 3, reload_depth: 0, suffix_k: 0 },
        t,
    );
    crate::bulk::long_queues_cfg(&mut out, false, t, true);
    // the same closure with the classes of the last two (thorough: three) operations in the key:
    // a book entered by a modification, a toggle, ... is expanded separately from the same live
    // book entered otherwise (state carried from one operation to the next)
    crate::absx::run_closure(
        &mut out,
        &mon,
        &crate::absx::ClosureCfg { label: "C13: trading flag and the last operations' classes in the key", max_rest: 2, max_vol: 2, modify: true, toggles: true, create: false, redundant: false, ties: false, prices: 3, reload_depth: 0, suffix_k: if t { 3 } else { 2 } },
        false,
    );
    crate::marketx::c13_market_part(&mut out, t);
    crate::envprops::c13_env_part(&mut out, t);
    out.finish()
}

/// C05, book-level part (tie profile)
pub fn c05_book(out: &mut Outcome, t: bool) {
    let mon = Monitors {
        reference: true,
        drain: true,
        views: true,
        ledger: true,
        life: true,
        reload_equal: true,
        ..Default::default()
    };
    let mut plans = Vec::new();
    let mut core = Profile::core("ties-core", 1, 10);
    core.dt = DtMode::ZeroOneFree;
    plans.push(plan("core, clock advance {0,+1} everywhere", core.clone(), 3, if t { 5 } else { 4 }));
    let mut p = core.clone();
    p.name = "ties-modify-reload".into();
    p.modify = true;
    p.modify_prices = true;
    p.modify_vols = vec![1, 3];
    p.reload_modes = vec![0];
    p.prices = vec![10, 11];
    p.limit_vols = vec![2];
    p.market_vols = vec![1, 3];
    plans.push(plan("modify + reload, clock {0,+1}", p.clone(), 3, if t { 5 } else { 4 }));
    with_traders(&mut plans, "modify + reload, clock {0,+1}", &p, 3, if t { 4 } else { 3 });
    let mut q = core.clone();
    q.name = "ties-create-place".into();
    q.create_place = true;
    q.redundant_place = true;
    q.toggles = true;
    q.prices = vec![10, 11];
    q.limit_vols = vec![2];
    q.market_vols = vec![3];
    plans.push(plan("create/place + toggles, clock {0,+1}", q.clone(), 3, if t { 5 } else { 4 }));
    {
        // reads at chosen moments between tied operations (one price, one volume: deeper)
        let mut ob = q.clone();
        ob.toggles = false;
        ob.prices = vec![10];
        ob.limit_vols = vec![2];
        ob.market_vols = vec![];
        ob.max_unplaced = 2;
        with_observe(&mut plans, "create/place at one price, clock {0,+1}", &ob, 3, if t { 7 } else { 5 });
    }
    // from a one-sided three-level book: created-but-unplaced orders, reads as an operation, ties
    // (pairs of mutations at one clock value that restore every aggregate a cheap stamp could hold)
    {
        let mut ob = Profile::core("ties-observe-from-ladder", 1, 10);
        ob.dt = DtMode::ZeroOneFree;
        ob.create_place = true;
        ob.limit_vols = vec![2];
        ob.market_vols = vec![];
        ob.observe_op = true;
        let base = vec![lim(false, 10, 2), lim(false, 12, 2)];
        plans.push(Plan { label: "from asks at 10 and 12: create/place, cancels, reads as operations, clock {0,+1}".into(), profile: ob, levels: 3, depth: if t { 5 } else { 4 }, base });
    }
    // books crossed while trading was off, then an aggressor whose remainder rests on a tied level
    let mut x = core.clone();
    x.name = "ties-crossed-start-off".into();
    x.start_trading = false;
    x.toggles = true;
    x.prices = vec![10, 11];
    x.limit_vols = vec![1, 2];
    x.market_vols = vec![1];
    plans.push(plan("trading off at start, toggles, two volumes, clock {0,+1}", x.clone(), 3, if t { 6 } else { 5 }));
    let mut xm = x.clone();
    xm.name = "ties-crossed-modify".into();
    xm.modify = true;
    xm.modify_prices = true;
    xm.modify_vols = vec![1];
    xm.limit_vols = vec![2];
    plans.push(plan("trading off at start, toggles, modify, clock {0,+1}", xm, 3, if t { 5 } else { 4 }));
    // ties at prices that are complementary under the bid-key inversion (p + q = 2^32-1), and
    // ties between bids above 2^31
    for (name, prices) in [("ties-complementary-prices", vec![2_147_483_647u32, 2_147_483_648]), ("ties-high-bid-prices", vec![2_147_483_648u32, 3_000_000_000])] {
        let mut hp = core.clone();
        hp.name = name.into();
        hp.prices = prices;
        hp.limit_vols = vec![1];
        hp.market_vols = vec![];
        hp.start_time = 1 << 40;
        plans.push(plan(&format!("{}: limit orders and cancels only, clock {{0,+1}}", name), hp.clone(), 3, if t { 7 } else { 6 }));
        hp.name = format!("{}-modify", name);
        hp.modify = true;
        hp.modify_prices = true;
        hp.modify_vols = vec![];
        plans.push(plan(&format!("{}: + re-pricing modifies", name), hp, 3, if t { 5 } else { 4 }));
    }
    // ties at the very end of the clock axis: the clock cannot move any further, so every
    // insertion after it got there is a tie (queue keys cannot simply be "the clock plus one")
    let mut ce = core.clone();
    ce.name = "ties-at-clock-end".into();
    ce.start_time = u64::MAX - 1;
    ce.prices = vec![10, 11];
    ce.limit_vols = vec![1, 2];
    ce.market_vols = vec![3];
    ce.modify = true;
    ce.modify_prices = true;
    ce.modify_vols = vec![];
    plans.push(plan("clock starting at 2^64-2: ties at the largest representable time", ce, 3, if t { 5 } else { 4 }));
    execute(
        out,
        plans,
        &mon,
        &["state-with-tie", "dt0", "op-with-trades", "three-queued-at-one-price"],
        if t { 3000 } else { 40 },
    );
    crate::bulk::long_queues(out, true, t);
    // unbounded-depth closure with the clock advance {0,+1} as part of every action
    let mon2 = Monitors { reference: true, drain: true, views: true, ledger: true, life: true, ..Default::default() };
    crate::absx::run_closure(
        out,
        &mon2,
        &crate::absx::ClosureCfg { label: "C05: tie closure (clock {0,+1}, modify, toggles)", max_rest: 3, max_vol: 2, modify: true, toggles: t, create: false, redundant: false, ties: true, prices: 2, reload_depth: 0, suffix_k: 0 },
        t,
    );
    // the same with snapshot reloads among the actions (C05 demands C07 on tie histories): the
    // rebuilt index must queue later arrivals behind keys that run ahead of the clock
    let mon3 = Monitors { reload_equal: true, ..mon2.clone() };
    crate::absx::run_closure(
        out,
        &mon3,
        &crate::absx::ClosureCfg { label: "C05: tie closure with snapshot reloads", max_rest: if t { 3 } else { 2 }, max_vol: 2, modify: true, toggles: false, create: false, redundant: false, ties: true, prices: 2, reload_depth: if t { 2 } else { 1 }, suffix_k: 0 },
        false,
    );
    if t {
        crate::absx::run_closure(
            out,
            &mon2,
            &crate::absx::ClosureCfg { label: "C05: tie closure, three prices, create/place", max_rest: 2, max_vol: 2, modify: true, toggles: true, create: true, redundant: false, ties: true, prices: 3, reload_depth: 0, suffix_k: 0 },
            false,
        );
    }
}
