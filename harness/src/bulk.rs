//! Scripted long histories on the real `OrderBook`: what a depth-bounded enumeration cannot
//! reach because it needs *many* events of one kind - tens of thousands of orders queued at one
//! level (with and without advancing the clock), or a read followed by exactly 2^8 / 2^16
//! mutations of one side and another read. Each scenario is a deterministic script whose
//! expected outcome follows from the statement alone (queue order = insertion order; every view =
//! recomputation from `get_orders()`), so no reference engine is involved and the cost is linear.

use crate::monitors::m_views;
use crate::report::Outcome;
use crate::snap::*;
use crate::util;
use bourse_book::OrderBook;
use serde_json::json;

/// `n` sell orders of volume 1 queued at one price (clock advanced by `dt` before each), a few
/// of them cancelled or reduced in place, optionally a snapshot reload, then one market order
/// sweeps the level: it must execute against the surviving orders in queueing order.
fn long_queue(n: usize, dt: u64, bid_side: bool, reload: bool, sweep: u8, halt: bool) -> Result<u64, (String, String)> {
    let bad = |c: &str, d: String| Err((c.to_string(), d));
    // (halt: the backlog is built while trading is disabled - on a book constructed that way -
    // and trading is enabled just before the aggressor arrives)
    let mut b: OrderBook<3> = OrderBook::new(5, 1, !halt);
    let price = 1000u32;
    let mut ids = Vec::with_capacity(n);
    for i in 0..n {
        if dt > 0 {
            b.set_time(b.get_time() + dt);
        }
        match b.create_and_place_order(side_of(bid_side), 1 + (i % 2) as u32, 7, Some(price)) {
            Ok(id) => ids.push(id),
            Err(_) => return bad("placement-refused", format!("order {} of {} at one price was refused", i, n)),
        }
    }
    let total: u64 = (0..n).map(|i| 1 + (i % 2) as u64).sum();
    let (vol, best) = if bid_side { (b.bid_vol(), b.bid_best_vol_and_orders()) } else { (b.ask_vol(), b.ask_best_vol_and_orders()) };
    if vol as u64 != total || best != (total as u32, n as u32) {
        return bad("level-data", format!("{} orders (volume {}) queued at one price: side volume {}, touch (volume, orders) {:?}", n, total, vol, best));
    }
    // cancel a few (first, one in the middle, the one at index 2^16 if there is one, the last but one)
    let mut gone: Vec<usize> = vec![0, n / 2, n - 2];
    if n > 65_536 {
        gone.push(65_536);
    }
    gone.sort();
    gone.dedup();
    for &g in &gone {
        if dt > 0 {
            b.set_time(b.get_time() + dt);
        }
        b.cancel_order(ids[g]);
        if b.order(ids[g]).status != bourse_book::types::Status::Cancelled {
            return bad("cancel-had-no-effect", format!("order {} of {} queued at one price could not be cancelled", g, n));
        }
    }
    // a pure volume reduction keeps the seat (orders at odd positions have volume 2)
    let reduced = 1usize;
    b.modify_order(ids[reduced], None, Some(1));
    let mut b = if reload {
        let s = serde_json::to_string(&b).map_err(|e| ("reload-failed".to_string(), e.to_string()))?;
        serde_json::from_str::<OrderBook<3>>(&s).map_err(|e| ("reload-failed".to_string(), e.to_string()))?
    } else {
        b
    };
    // views still equal the recomputation from the order list
    let snap = Snap::take(&b);
    if let Err((c, d)) = m_views(&snap, 1, false) {
        return bad(&format!("views/{}", c), d);
    }
    if halt {
        if !b.get_trades().is_empty() {
            return bad("trade-while-disabled", format!("{} trades were recorded while trading was disabled", b.get_trades().len()));
        }
        b.enable_trading();
    }
    let sweep_vol = total as u32 + 5;
    // the aggressor: a market order, a limit order priced at the level, or a resting order of the
    // other side re-priced onto the level with a larger volume (its remainder must rest there)
    let mut aggressor = usize::MAX;
    if sweep == 2 {
        b.set_time(b.get_time() + 1);
        aggressor = b.create_and_place_order(side_of(!bid_side), 1, 9, Some(if bid_side { price + 50 } else { price - 50 })).map_err(|_| ("placement-refused".to_string(), "aggressor".to_string()))?;
    }
    let n0 = b.get_trades().len();
    b.set_time(b.get_time() + 1);
    match sweep {
        0 => {
            let _ = b.create_and_place_order(side_of(!bid_side), sweep_vol, 9, None);
        }
        1 => {
            aggressor = b.create_and_place_order(side_of(!bid_side), sweep_vol, 9, Some(price)).map_err(|_| ("placement-refused".to_string(), "aggressor".to_string()))?;
        }
        _ => b.modify_order(aggressor, Some(price), Some(sweep_vol)),
    }
    if sweep > 0 {
        // the remainder rests at the level's price on the other side; nothing is crossed
        let s = Snap::take(&b);
        if let Err((c, d)) = m_views(&s, 1, false) {
            return bad(&format!("views-after-sweep/{}", c), d);
        }
        let o = b.order(aggressor);
        let gone_vol: u64 = gone.iter().map(|g| 1 + (*g % 2) as u64).sum::<u64>() + 1;
        let want = sweep_vol as u64 - (total - gone_vol);
        if o.status != bourse_book::types::Status::Active || o.vol as u64 != want || o.price != price {
            return bad("aggressor-remainder", format!("the aggressor should rest with volume {} at {}: {:?}", want, price, OrderRec::of(o)));
        }
    }
    let trades = &b.get_trades()[n0..];
    let expect: Vec<(usize, u32)> = (0..n).filter(|i| !gone.contains(i)).map(|i| (ids[i], if i == reduced { 1 } else { 1 + (i % 2) as u32 })).collect();
    if trades.len() != expect.len() {
        return bad("sweep-length", format!("{} orders rest at one price ({} queued, {} cancelled) but sweeping the level executes {} fills", expect.len(), n, gone.len(), trades.len()));
    }
    for (k, (t, (id, v))) in trades.iter().zip(expect.iter()).enumerate() {
        if t.passive_order_id != *id || t.vol != *v || t.price != price {
            return bad(
                "sweep-order",
                format!("fill {} of the sweep hits order {} (volume {}, price {}), expected order {} (volume {}): queue position {} of {}", k, t.passive_order_id, t.vol, t.price, id, v, k, n),
            );
        }
    }
    let (vol, best) = if bid_side { (b.bid_vol(), b.bid_best_vol_and_orders()) } else { (b.ask_vol(), b.ask_best_vol_and_orders()) };
    if vol != 0 || best != (0, 0) {
        return bad("residue", format!("after the sweep the side still reports volume {} / touch {:?}", vol, best));
    }
    let logged: u64 = trades.iter().map(|t| t.vol as u64).sum();
    if b.get_trade_vol() as u64 != logged && sweep < 2 {
        return bad("trade-volume-counter", format!("the sweep logged volume {} but the counter says {}", logged, b.get_trade_vol()));
    }
    Ok(n as u64 + gone.len() as u64 + 3)
}

pub fn long_queues(out: &mut Outcome, ties: bool, thorough: bool) {
    long_queues_cfg(out, ties, thorough, false)
}

pub fn long_queues_cfg(out: &mut Outcome, ties: bool, thorough: bool, halt: bool) {
    let sizes: &[usize] = if halt {
        &[18, 300, 1_100, 4_100, 70_000]
    } else if thorough {
        &[18, 66, 300, 4_097, 4_100, 65_535, 65_536, 65_537, 70_000, 131_073]
    } else {
        &[18, 66, 300, 4_100, 65_537, 70_000]
    };
    let mut ops = 0u64;
    let mut runs = 0u64;
    let jobs: Vec<(usize, bool, bool, u8)> = sizes
        .iter()
        .flat_map(|&n| [false, true].into_iter().flat_map(move |bid| [false, true].into_iter().flat_map(move |reload| (0..3u8).map(move |sweep| (n, bid, reload, sweep)))))
        .filter(|(n, _, reload, sweep)| !(*reload && *n > 70_000) && (*n <= 5_000 || *sweep == 0 || !*reload))
        .collect();
    let results: Vec<(usize, Result<Result<u64, (String, String)>, String>)> = std::thread::scope(|sc| {
        let hs: Vec<_> = jobs
            .iter()
            .enumerate()
            .map(|(i, &(n, bid, reload, sweep))| {
                let dt = if ties { 0 } else { 1 };
                sc.spawn(move || (i, util::subject(|| long_queue(n, dt, bid, reload, sweep, halt))))
            })
            .collect();
        hs.into_iter().map(|h| h.join().unwrap()).collect()
    });
    for (i, r) in results {
        let (n, bid, reload, sweep) = jobs[i];
        runs += 1;
        let dt = if ties { 0 } else { 1 };
        let replay = json!({"engine": "bulk", "scenario": "long queue at one price", "orders": n, "clock_advance_between_placements": dt, "side": if bid { "bid" } else { "ask" }, "snapshot_reload_before_the_sweep": reload, "aggressor": (["market order", "limit order at the level's price", "resting order re-priced onto the level"])[sweep as usize]});
        match r {
            Ok(Ok(k)) => ops += k,
            Ok(Err((c, d))) => out.fail_other(&format!("bulk/long-queue/{}", c), d, replay),
            Err(m) => out.fail_other(&format!("bulk/long-queue/panic/{}", util::panic_sig(&m)), m, replay),
        }
    }
    out.add_u64("states", runs);
    out.add_u64("transitions", ops);
    out.add_u64("traces_validated_against_impl", runs);
    out.push(
        "runs",
        json!({"engine": "bulk (scripted long histories)", "label": if halt { "backlog queued at one price while trading is disabled, enabled, then swept" } else if ties { "long queues at one price without advancing the clock" } else { "long queues at one price, clock advanced before every placement" },
               "queue_lengths": sizes, "sides": ["ask", "bid"], "variants": ["sweep directly", "snapshot reload before the sweep"], "aggressors": ["market order", "limit order at the level's price (remainder rests, nothing crossed)", "resting order re-priced onto the level"], "operations_executed": ops,
               "oracle": "level data = number/volume queued; cancels of the first, middle, 2^16-th and last-but-one order take effect; a pure reduction keeps the seat; the sweep executes the surviving orders in queueing order; views = recomputation from get_orders()"}),
    );
}

/// Read every view once, then mutate one side exactly `period` times without reading (orders
/// joining and leaving a level BEHIND the touch, so that nothing the matching engine needs is
/// involved), then read again: every view must equal the recomputation from `get_orders()`.
/// A structure that recognises "nothing changed since I last looked" by a counter of 8 or 16
/// bits is fooled exactly here.
fn stale_after(period: usize, bid_side: bool, levels10: bool, at_touch: bool) -> Result<u64, (String, String)> {
    fn go<const L: usize>(period: usize, bid_side: bool, at_touch: bool) -> Result<u64, (String, String)> {
        let mut b: OrderBook<L> = OrderBook::new(0, 1, true);
        // (at_touch: the orders join and leave the touch level itself, which never empties)
        let (touch, behind) = if at_touch { (500u32, 500u32) } else if bid_side { (500u32, 498u32) } else { (500u32, 502u32) };
        let mut t = 1u64;
        let mut place = |b: &mut OrderBook<L>, p: u32, v: u32, t: &mut u64| -> usize {
            *t += 1;
            b.set_time(*t);
            b.create_and_place_order(side_of(bid_side), v, 7, Some(p)).unwrap()
        };
        place(&mut b, touch, 3, &mut t);
        let first = place(&mut b, behind, 2, &mut t);
        // the other side holds something too
        t += 1;
        b.set_time(t);
        let _ = b.create_and_place_order(side_of(!bid_side), 4, 8, Some(if bid_side { 510 } else { 490 }));
        // the one read
        let s0 = Snap::take(&b);
        m_views(&s0, 1, false).map_err(|(c, d)| (format!("views/{}", c), d))?;
        // `period` mutations of the side: (place, cancel) pairs at the level behind the touch,
        // ending with one order more than at the read (period even: the last pair is replaced by
        // cancel-of-the-first + place, so the count is the same but the volume differs)
        let mut live: Vec<usize> = vec![first];
        let mut done = 0usize;
        while done < period {
            if done + 1 == period || live.len() < 2 {
                let id = place(&mut b, behind, 5, &mut t);
                live.push(id);
            } else {
                let id = live.remove(0);
                t += 1;
                b.set_time(t);
                b.cancel_order(id);
            }
            done += 1;
        }
        let s1 = Snap::take(&b);
        m_views(&s1, 1, false).map_err(|(c, d)| (format!("views/{}", c), format!("one read, then {} mutations of the {} side without reading, then a second read: {}", period, if bid_side { "bid" } else { "ask" }, d)))?;
        Ok(period as u64 + 3)
    }
    if levels10 {
        go::<10>(period, bid_side, at_touch)
    } else {
        go::<3>(period, bid_side, at_touch)
    }
}

pub fn periodic_staleness(out: &mut Outcome, thorough: bool) {
    let mut periods: Vec<usize> = vec![1, 2, 255, 256, 257, 512, 65_535, 65_536, 65_537, 131_072];
    if thorough {
        periods.extend([3, 4, 8, 16, 32, 64, 128, 1024, 4096, 32_768, 196_608, 262_144]);
    }
    let mut ops = 0u64;
    let mut runs = 0u64;
    for &p in &periods {
        for bid in [false, true] {
            for (l10, at_touch) in [(false, false), (true, false), (false, true), (true, true)] {
                runs += 1;
                let replay = json!({"engine": "bulk", "scenario": "read, mutate one side N times without reading, read", "mutations": p, "side": if bid { "bid" } else { "ask" }, "levels": if l10 { 10 } else { 3 }, "mutated_level": if at_touch { "the touch level" } else { "two ticks behind the touch" }});
                match util::subject(|| stale_after(p, bid, l10, at_touch)) {
                    Ok(Ok(k)) => ops += k,
                    Ok(Err((c, d))) => out.fail_other(&format!("bulk/read-mutate-read/{}", c), d, replay),
                    Err(m) => out.fail_other(&format!("bulk/read-mutate-read/panic/{}", util::panic_sig(&m)), m, replay),
                }
            }
        }
    }
    out.add_u64("states", runs);
    out.add_u64("transitions", ops);
    out.add_u64("traces_validated_against_impl", runs);
    out.push(
        "runs",
        json!({"engine": "bulk (scripted long histories)", "label": "one read, N mutations of one side without reading, a second read", "mutation_counts": periods, "sides": ["ask", "bid"], "levels": [3, 10],
               "operations_executed": ops, "oracle": "every view at the second read equals the recomputation from get_orders() (model-free)"}),
    );
}


/// `n` distinct populated price levels per side (one or two orders each, different volumes), for
/// several tick sizes and level counts: after every placement, and while the touch levels are
/// cancelled away one by one (so that the published window slides over the whole ladder), every
/// view must equal the recomputation from `get_orders()`.
fn ladder<const L: usize>(n: u32, tick: u32) -> Result<u64, (String, String)> {
    let mut b: OrderBook<L> = OrderBook::new(0, tick, true);
    let centre = 1_000u32 * tick;
    let mut t = 0u64;
    let mut ops = 0u64;
    let mut ids: Vec<(bool, usize)> = Vec::new();
    let check = |b: &OrderBook<L>, what: &str| -> Result<(), (String, String)> {
        let s = Snap::take(b);
        m_views(&s, tick, false).map_err(|(c, d)| (format!("views/{}", c), format!("{} levels per side, tick {}, LEVELS {}, {}: {}", n, tick, L, what, d)))
    };
    for i in 0..n {
        for bid in [true, false] {
            let price = if bid { centre - (1 + i) * tick } else { centre + (1 + i) * tick };
            for k in 0..(1 + (i + bid as u32) % 2) {
                t += 1;
                b.set_time(t);
                let id = b.create_and_place_order(side_of(bid), 1 + (i * 3 + k) % 7, 7, Some(price)).map_err(|_| ("placement-refused".to_string(), format!("price {}", price)))?;
                ids.push((bid, id));
                ops += 1;
            }
            check(&b, &format!("after populating level {} of the {} side", i, if bid { "bid" } else { "ask" }))?;
        }
    }
    // slide the window: cancel from the touch outwards
    for (k, (bid, id)) in ids.iter().enumerate() {
        t += 1;
        b.set_time(t);
        b.cancel_order(*id);
        ops += 1;
        if k % 3 == 0 || k + 40 > ids.len() {
            check(&b, &format!("after cancelling {} orders from the touch outwards (last on the {} side)", k + 1, if *bid { "bid" } else { "ask" }))?;
        }
    }
    Ok(ops)
}

pub fn deep_ladders(out: &mut Outcome, thorough: bool) {
    let depths: &[u32] = if thorough { &[11, 12, 13, 32, 33, 34, 40, 64, 65, 70, 130, 260] } else { &[12, 33, 40, 70] };
    let mut ops = 0u64;
    let mut runs = 0u64;
    for &n in depths {
        for tick in [1u32, 2, 5, 10] {
            for l in [3usize, 10, 24] {
                runs += 1;
                let r = util::subject(|| match l {
                    3 => ladder::<3>(n, tick),
                    10 => ladder::<10>(n, tick),
                    _ => ladder::<24>(n, tick),
                });
                let replay = json!({"engine": "bulk", "scenario": "deep ladder", "populated_levels_per_side": n, "tick": tick, "levels": l});
                match r {
                    Ok(Ok(k)) => ops += k,
                    Ok(Err((c, d))) => out.fail_other(&format!("bulk/deep-ladder/{}", c), d, replay),
                    Err(m) => out.fail_other(&format!("bulk/deep-ladder/panic/{}", util::panic_sig(&m)), m, replay),
                }
            }
        }
    }
    out.add_u64("states", runs);
    out.add_u64("transitions", ops);
    out.add_u64("traces_validated_against_impl", runs);
    out.push(
        "runs",
        json!({"engine": "bulk (scripted long histories)", "label": "deep ladders: many distinct populated price levels per side", "populated_levels_per_side": depths, "ticks": [1, 2, 5, 10], "levels": [3, 10, 24],
               "operations_executed": ops, "oracle": "every view equals the recomputation from get_orders() after every level is populated and while the window slides over the ladder (model-free)"}),
    );
}
