//! C07: JSON snapshot round trip (reload as an operation, model-free differential) and
//! crash points (every truncation offset of the written file must be rejected).

use crate::bookprops::*;
use crate::ops::*;
use crate::refmodel::RefModel;
use crate::report::Outcome;
use crate::seqx::*;
use crate::util;
use bourse_book::types::Side;
use bourse_book::{Market, OrderBook};
use serde_json::json;
use std::io::Write;
use std::sync::atomic::{AtomicU64, Ordering};
use std::sync::Mutex;

fn snapshot_profile(name: &str) -> Profile {
    let mut p = Profile::core(name, 1, 10);
    p.prices = vec![10, 11];
    p.limit_vols = vec![1, 2];
    p.market_vols = vec![1, 3];
    p.modify = true;
    p.modify_prices = true;
    p.modify_vols = vec![1, 3];
    p.toggles = true;
    p.create_place = true;
    p.reload_modes = vec![0, 1, 2];
    p.reset_tv = true;
    p
}

/// every history of length <= depth (model used only to generate the alphabet)
fn histories(p: &Profile, depth: usize) -> Vec<Vec<Step>> {
    fn rec(p: &Profile, m: &RefModel, h: &mut Vec<Step>, d: usize, out: &mut Vec<Vec<Step>>) {
        out.push(h.clone());
        if d == 0 {
            return;
        }
        for s in p.steps(m) {
            let mut m2 = m.clone();
            apply_model(&mut m2, &s);
            h.push(s);
            rec(p, &m2, h, d - 1, out);
            h.pop();
        }
    }
    let mut out = Vec::new();
    let m = RefModel::new(p.start_time, p.tick, p.start_trading);
    rec(p, &m, &mut Vec::new(), depth, &mut out);
    out
}

struct TruncStats {
    files: AtomicU64,
    loads: AtomicU64,
    bytes: AtomicU64,
}

/// For one saved file: every truncation offset 0..len-1 must make `load` return Err.
/// `load` returns Ok(true) if the load succeeded, Ok(false) if it returned an error.
fn truncation_sweep(
    path: &std::path::Path,
    stats: &TruncStats,
    load: &dyn Fn(&std::path::Path) -> bool,
) -> Result<(), (String, String)> {
    let bytes = std::fs::read(path).map_err(|e| ("io".to_string(), e.to_string()))?;
    stats.files.fetch_add(1, Ordering::Relaxed);
    stats.bytes.fetch_add(bytes.len() as u64, Ordering::Relaxed);
    // the complete file must load
    match util::subject(|| load(path)) {
        Ok(true) => {}
        Ok(false) => return Err(("complete-file-rejected".into(), "the untruncated snapshot did not load".into())),
        Err(m) => return Err((format!("panic-on-complete-file/{}", util::panic_sig(&m)), m)),
    }
    let f = std::fs::OpenOptions::new()
        .write(true)
        .open(path)
        .map_err(|e| ("io".to_string(), e.to_string()))?;
    for len in (0..bytes.len()).rev() {
        f.set_len(len as u64).map_err(|e| ("io".to_string(), e.to_string()))?;
        stats.loads.fetch_add(1, Ordering::Relaxed);
        match util::subject(|| load(path)) {
            Ok(false) => {}
            Ok(true) => {
                return Err((
                    "truncated-file-accepted".into(),
                    format!(
                        "a snapshot of {} bytes cut to {} bytes was loaded without error",
                        bytes.len(),
                        len
                    ),
                ))
            }
            Err(m) => {
                return Err((
                    format!("panic-on-truncated-file/{}", util::panic_sig(&m)),
                    format!("cut to {} of {} bytes: {}", len, bytes.len(), m),
                ))
            }
        }
    }
    Ok(())
}

fn truncation_part(out: &mut Outcome, t: bool) {
    let mut p = snapshot_profile("truncation-states");
    p.reload_modes = vec![];
    p.events = false;
    let depth = if t { 3 } else { 2 };
    let hs = histories(&p, depth);
    let stats = TruncStats { files: AtomicU64::new(0), loads: AtomicU64::new(0), bytes: AtomicU64::new(0) };
    let next = AtomicU64::new(0);
    let fails: Mutex<Vec<(String, String, Vec<Step>, bool)>> = Mutex::new(Vec::new());
    let threads = util::n_threads();
    std::thread::scope(|s| {
        for _ in 0..threads {
            s.spawn(|| loop {
                let i = next.fetch_add(1, Ordering::Relaxed) as usize;
                if i >= hs.len() {
                    break;
                }
                let h = &hs[i];
                let book = match util::subject(|| build_book::<3>(&p, h)) {
                    Ok(b) => b,
                    Err(_) => continue, // judged by other properties
                };
                for pretty in [false, true] {
                    let path = scratch_path();
                    if book.save_json(&path, pretty).is_err() {
                        fails.lock().unwrap().push(("save-failed".into(), "save_json returned an error".into(), h.clone(), pretty));
                        continue;
                    }
                    let r = truncation_sweep(&path, &stats, &|pa| OrderBook::<3>::load_json(pa).is_ok());
                    if let Err((c, d)) = r {
                        fails.lock().unwrap().push((c, d, h.clone(), pretty));
                    }
                }
            });
        }
    });
    // multi-asset market: scripted states x both formats x every offset
    let market_states: Vec<Vec<(usize, bool, u32, Option<u32>)>> = vec![
        vec![],
        vec![(0, true, 2, Some(10)), (1, false, 3, Some(20))],
        vec![(0, true, 2, Some(10)), (0, false, 1, Some(10)), (1, false, 3, Some(20)), (1, true, 1, None)],
    ];
    let mut market_files = 0u64;
    for ms in &market_states {
        let mut m: Market<2, 3> = Market::new(5, [1, 2], true);
        for (i, (a, bid, vol, price)) in ms.iter().enumerate() {
            m.set_time(6 + i as u64);
            let _ = m.create_and_place_order(*a, if *bid { Side::Bid } else { Side::Ask }, *vol, 7, *price);
        }
        for pretty in [false, true] {
            let path = scratch_path();
            if m.save_json(&path, pretty).is_err() {
                continue;
            }
            market_files += 1;
            let r = truncation_sweep(&path, &stats, &|pa| Market::<2, 3>::load_json(pa).is_ok());
            if let Err((c, d)) = r {
                out.fail_other(
                    &format!("truncation/market/{}", c),
                    d,
                    json!({"market_ops": format!("{:?}", ms), "pretty": pretty}),
                );
            }
        }
    }
    for (c, d, h, pretty) in fails.into_inner().unwrap() {
        out.fail_other(
            &format!("truncation/{}", c),
            d,
            json!({"steps": crate::report::steps_to_json(&h), "steps_readable": crate::report::steps_pretty(&h), "pretty": pretty, "levels": 3, "tick": p.tick}),
        );
    }
    let files = stats.files.load(Ordering::Relaxed);
    let loads = stats.loads.load(Ordering::Relaxed);
    out.add_u64("states", hs.len() as u64);
    out.add_u64("transitions", loads);
    out.add_u64("traces_validated_against_impl", files);
    out.set(
        "crash_points",
        json!({
            "book_states": hs.len(), "state_depth": depth, "formats": ["compact", "pretty"],
            "files_written": files, "market_files": market_files, "truncated_loads": loads,
            "bytes_total": stats.bytes.load(Ordering::Relaxed),
            "rule": "every history of length <= state_depth over the snapshot alphabet; each saved in both formats; the file is cut to every length 0..len-1 and load_json must return Err (no panic, no Ok)",
        }),
    );
    if loads == 0 {
        out.machinery_errors.push("no truncated load was executed".into());
    }
}

pub fn c07(tier: &str) -> i32 {
    let mut out = Outcome::new("C07", tier, "model_checking");
    let t = thorough(tier);
    let mon = Monitors {
        reference: true,
        drain: true,
        reload_equal: true,
        reload_diff: true,
        ..Default::default()
    };
    let mut plans = Vec::new();
    let p = snapshot_profile("snapshot");
    if t {
        plans.push(plan("reload (memory / compact file / pretty file) as an operation, LEVELS 3", p.clone(), 3, 5));
    } else {
        // (quick: the in-memory reload at full depth, the two file formats one operation shallower - file I/O dominates)
        let mut pm = p.clone();
        pm.reload_modes = vec![0];
        plans.push(plan("in-memory reload as an operation, LEVELS 3", pm, 3, 4));
        let mut pf = p.clone();
        pf.name = "snapshot-files".into();
        pf.reload_modes = vec![1, 2];
        plans.push(plan("reload through a compact / pretty file as an operation, LEVELS 3", pf, 3, 3));
    }
    {
        // reading (incl. serialising) at any point before or after a reload must not matter
        let mut ob = p.clone();
        ob.prices = vec![10, 11];
        ob.limit_vols = vec![2];
        ob.market_vols = vec![1];
        ob.reload_modes = vec![0];
        with_observe(&mut plans, "two prices, in-memory reload", &ob, 3, if t { 6 } else { 5 });
    }
    let mut p10 = p.clone();
    p10.name = "snapshot-L10".into();
    p10.reload_modes = vec![0, 2];
    plans.push(plan("reload as an operation, LEVELS 10", p10, 10, if t { 4 } else { 3 }));
    let mut p3 = snapshot_profile("snapshot-tick3-events");
    p3.tick = 3;
    p3.prices = vec![3, 6];
    p3.events = true;
    p3.create_place = false;
    p3.reload_modes = vec![0];
    plans.push(plan("tick 3, event route, in-memory reload", p3, 3, if t { 4 } else { 3 }));
    {
        let mut q = p.clone();
        q.reload_modes = vec![0];
        with_traders(&mut plans, "in-memory reload", &q, 3, if t { 4 } else { 3 });
    }
    for l in [1usize, 2, 24] {
        let mut q = p.clone();
        q.name = format!("snapshot-L{}", l);
        q.reload_modes = vec![0];
        q.create_place = false;
        plans.push(plan(&format!("in-memory reload, LEVELS {}", l), q, l, if t { 4 } else { 3 }));
    }
    // tick sizes that do not divide 2^32-1 (the sentinel price of a buy market order), with
    // unplaced orders of every kind present at the snapshot point
    for tick in [2u32, 7, 10] {
        let mut q = snapshot_profile(&format!("snapshot-tick{}", tick));
        q.tick = tick;
        q.prices = vec![10 * tick, 11 * tick];
        q.limit_vols = vec![2];
        q.market_vols = vec![1];
        q.modify_vols = vec![1];
        q.max_unplaced = 2;
        q.reload_modes = vec![if tick == 2 { 1 } else { 0 }];
        plans.push(plan(&format!("tick {}: unplaced limit and market orders at the snapshot point", tick), q, 3, if t { 4 } else { 3 }));
    }
    with_bases(&mut plans, "snapshot", &p, 3, if t { 3 } else { 2 });
    with_big_bases(&mut plans, "snapshot", &p, 3, 2);
    // numbers beyond 2^31 / 2^32 / 2^53 must survive the JSON round trip
    let mut mg = Profile::magnitude("snapshot-magnitudes");
    mg.start_time = (1 << 60) + 12_345;
    mg.modify = true;
    mg.modify_prices = true;
    mg.modify_vols = vec![70_001];
    mg.toggles = true;
    mg.prices = vec![2_147_483_647, 2_147_483_648, 4_294_967_294];
    mg.dt = DtMode::ZeroOneDisciplined;
    mg.limit_vols = vec![1, 3_000_000_000];
    mg.reload_modes = vec![0, 1, 2];
    plans.push(plan("large times (beyond 2^53), prices and volumes", mg, 3, if t { 4 } else { 3 }));
    with_clock_boundaries(
        &mut plans,
        &|p| {
            p.reload_modes = vec![0, 2];
            p.toggles = true;
            p.limit_vols = vec![2];
            p.market_vols = vec![1];
        },
        3,
        if t { 4 } else { 3 },
    );
    // one price, few orders, deep: queue order that differs from id order at the snapshot point
    {
        let mut rl = Profile::core("snapshot-deep-one-price", 1, 10);
        rl.prices = vec![10];
        rl.limit_vols = vec![2];
        rl.market_vols = vec![1];
        rl.modify = true;
        rl.modify_vols = vec![3];
        rl.reload_modes = vec![0];
        rl.max_orders = 4;
        plans.push(plan("one price, re-queuing modifies, reload: depth 7", rl, 3, if t { 8 } else { 7 }));
    }
    // a snapshot file larger than 1 MiB (6 000 resting orders, both formats) through the file path
    {
        let mut q = snapshot_profile("snapshot-bulk");
        q.reload_modes = vec![1, 2];
        q.create_place = false;
        q.modify = false;
        q.toggles = false;
        q.id_window = 2;
        q.limit_vols = vec![2];
        q.market_vols = vec![1];
        let base: Vec<Step> = (0..6000u32).map(|i| lim(i % 2 == 0, if i % 2 == 0 { 10 } else { 11 }, 1 + i % 3)).collect();
        plans.push(Plan { label: "6 000 resting orders: file snapshots beyond 1 MiB in both formats".into(), profile: q, levels: 3, depth: 1, base });
    }
    execute(
        &mut out,
        plans,
        &mon,
        &["op:reload", "op-with-trades", "modify-requeue", "market-rejected", "cancel-of-partially-filled"],
        if t { 3000 } else { 40 },
    );
    // unbounded-depth closure: a snapshot reload is an action in every abstract book state, and the
    // states reached within two operations after a reload are expanded separately (so every
    // action pair + sweep also runs on a book rebuilt from its snapshot)
    let mon_c = Monitors { reference: true, drain: true, views: true, life: true, reload_equal: true, ..Default::default() };
    crate::absx::run_closure(
        &mut out,
        &mon_c,
        &crate::absx::ClosureCfg { label: "C07: reload in every state (modify, toggles, create/place)", max_rest: 3, max_vol: 2, modify: true, toggles: true, create: true, redundant: false, ties: false, prices: if t { 3 } else { 2 }, reload_depth: 2, suffix_k: 0 },
        false,
    );
    crate::absx::run_closure(
        &mut out,
        &mon_c,
        &crate::absx::ClosureCfg { label: "C07: one price, queues of up to four orders (queue order != id order at the snapshot point)", max_rest: if t { 5 } else { 4 }, max_vol: 2, modify: true, toggles: true, create: false, redundant: false, ties: false, prices: 1, reload_depth: 2, suffix_k: 0 },
        false,
    );
    truncation_part(&mut out, t);
    crate::marketx::c07_market_part(&mut out, t);
    out.assumptions = vec![
        "torn writes other than truncation are outside the statement".into(),
        "the reloaded object is compared through the public getters and by sweeping the book".into(),
    ];
    let _ = std::io::stdout().flush();
    out.finish()
}
