//! C09: a simulation is a pure function of its seed and parameters. A finite configuration
//! grid crossed with every enumerated nondeterminism dimension: {1st, 2nd run in-process} x
//! {progress bar off, on} x {this process, child processes} x {library runner, hand-written
//! loop around a recording generator, play-back of the recorded stream}.

use crate::report::Outcome;
use crate::scriptrng::{Ans, ScriptRng};
use crate::snap::*;
use crate::util;
use bourse_de::agents::{Agent, AgentSet, MarketAgent, MarketAgentSet, MomentumAgent, MomentumMarketAgent, MomentumParams, NoiseAgent, NoiseAgentParams, NoiseMarketAgent, RandomAgents, RandomMarketAgents};
use bourse_de::{market_sim_runner, sim_runner, Env, MarketEnv};
use rand::RngCore;
use rand_xoshiro::rand_core::SeedableRng;
use rand_xoshiro::Xoroshiro128StarStar;
use serde_json::json;
use std::collections::{BTreeMap, BTreeSet};

#[derive(AgentSet)]
struct SetR {
    r: RandomAgents,
}
#[derive(AgentSet)]
struct SetN {
    n: NoiseAgent,
}
#[derive(AgentSet)]
struct SetM {
    m: MomentumAgent,
}
#[derive(AgentSet)]
struct SetRN {
    r: RandomAgents,
    n: NoiseAgent,
}
#[derive(AgentSet)]
struct SetNM {
    n: NoiseAgent,
    m: MomentumAgent,
}
#[derive(AgentSet)]
struct SetAll {
    r: RandomAgents,
    n: NoiseAgent,
    m: MomentumAgent,
}
#[derive(AgentSet)]
struct SetNested {
    inner: SetRN,
    m: MomentumAgent,
}

#[derive(MarketAgentSet)]
struct MSetR {
    r: RandomMarketAgents,
}
#[derive(MarketAgentSet)]
struct MSetN {
    n: NoiseMarketAgent,
}
#[derive(MarketAgentSet)]
struct MSetM {
    m: MomentumMarketAgent,
}
#[derive(MarketAgentSet)]
struct MSetRN {
    r: RandomMarketAgents,
    n: NoiseMarketAgent,
}
#[derive(MarketAgentSet)]
struct MSetNM {
    n: NoiseMarketAgent,
    m: MomentumMarketAgent,
}
#[derive(MarketAgentSet)]
struct MSetAll {
    r: RandomMarketAgents,
    n: NoiseMarketAgent,
    m: MomentumMarketAgent,
}
#[derive(MarketAgentSet)]
struct MSetNested {
    inner: MSetRN,
    m: MomentumMarketAgent,
}

// The same three-member set declared again, twice, and once with the update written out by hand in
// declaration order: a set is a function of its declaration, so all four must produce the same run.
#[derive(AgentSet)]
struct SetAllB {
    r: RandomAgents,
    n: NoiseAgent,
    m: MomentumAgent,
}
#[derive(AgentSet)]
struct SetAllC {
    r: RandomAgents,
    n: NoiseAgent,
    m: MomentumAgent,
}
struct HandAll {
    r: RandomAgents,
    n: NoiseAgent,
    m: MomentumAgent,
}
impl AgentSet for HandAll {
    fn update<R: RngCore>(&mut self, env: &mut Env, rng: &mut R) {
        bourse_de::agents::Agent::update(&mut self.r, env, rng);
        bourse_de::agents::Agent::update(&mut self.n, env, rng);
        bourse_de::agents::Agent::update(&mut self.m, env, rng);
    }
}
#[derive(MarketAgentSet)]
struct MSetAllB {
    r: RandomMarketAgents,
    n: NoiseMarketAgent,
    m: MomentumMarketAgent,
}
#[derive(MarketAgentSet)]
struct MSetAllC {
    r: RandomMarketAgents,
    n: NoiseMarketAgent,
    m: MomentumMarketAgent,
}
struct MHandAll {
    r: RandomMarketAgents,
    n: NoiseMarketAgent,
    m: MomentumMarketAgent,
}
impl MarketAgentSet for MHandAll {
    fn update<R: RngCore, const M: usize, const N: usize>(&mut self, env: &mut MarketEnv<M, N>, rng: &mut R) {
        bourse_de::agents::MarketAgent::update(&mut self.r, env, rng);
        bourse_de::agents::MarketAgent::update(&mut self.n, env, rng);
        bourse_de::agents::MarketAgent::update(&mut self.m, env, rng);
    }
}

fn rnd(tick: u32) -> RandomAgents {
    RandomAgents::new(5, (90, 111), (1, 10), tick, 0.6)
}
fn noise(tick: u32) -> NoiseAgent {
    NoiseAgent::new(100, 6, NoiseAgentParams { tick_size: tick, p_limit: 0.6, p_market: 0.3, p_cancel: 0.3, trade_vol: 3, price_dist_mu: 0.0, price_dist_sigma: 2.0 })
}
fn mom(tick: u32) -> MomentumAgent {
    MomentumAgent::new(200, 4, MomentumParams { tick_size: tick, p_cancel: 0.2, trade_vol: 2, decay: 0.5, demand: 5.0, scale: 0.5, order_ratio: 1.0, price_dist_mu: 0.0, price_dist_sigma: 2.0 })
}
fn mrnd(a: usize, tick: u32) -> RandomMarketAgents {
    RandomMarketAgents::new(a, 5, (90, 111), (1, 10), tick, 0.6)
}
fn mnoise(a: usize, tick: u32) -> NoiseMarketAgent {
    NoiseMarketAgent::new(a, 100, 6, NoiseAgentParams { tick_size: tick, p_limit: 0.6, p_market: 0.3, p_cancel: 0.3, trade_vol: 3, price_dist_mu: 0.0, price_dist_sigma: 2.0 })
}
fn mmom(a: usize, tick: u32) -> MomentumMarketAgent {
    MomentumMarketAgent::new(200, 4, a, MomentumParams { tick_size: tick, p_cancel: 0.2, trade_vol: 2, decay: 0.5, demand: 5.0, scale: 0.5, order_ratio: 1.0, price_dist_mu: 0.0, price_dist_sigma: 2.0 })
}

// a second parameterisation of every agent type (other probabilities, demand, scale, population):
// used for the simulation that shares a thread with the first one
fn rnd_b(tick: u32) -> RandomAgents {
    RandomAgents::new(3, (95, 106), (2, 5), tick, 0.9)
}
fn noise_b(tick: u32) -> NoiseAgent {
    NoiseAgent::new(100, 4, NoiseAgentParams { tick_size: tick, p_limit: 0.3, p_market: 0.5, p_cancel: 0.1, trade_vol: 2, price_dist_mu: 0.0, price_dist_sigma: 3.0 })
}
fn mom_b(tick: u32) -> MomentumAgent {
    MomentumAgent::new(200, 3, MomentumParams { tick_size: tick, p_cancel: 0.4, trade_vol: 3, decay: 0.5, demand: 2.0, scale: 3.0, order_ratio: 0.5, price_dist_mu: 0.0, price_dist_sigma: 2.0 })
}
fn mrnd_b(a: usize, tick: u32) -> RandomMarketAgents {
    RandomMarketAgents::new(a, 3, (95, 106), (2, 5), tick, 0.9)
}
fn mnoise_b(a: usize, tick: u32) -> NoiseMarketAgent {
    NoiseMarketAgent::new(a, 100, 4, NoiseAgentParams { tick_size: tick, p_limit: 0.3, p_market: 0.5, p_cancel: 0.1, trade_vol: 2, price_dist_mu: 0.0, price_dist_sigma: 3.0 })
}
fn mmom_b(a: usize, tick: u32) -> MomentumMarketAgent {
    MomentumMarketAgent::new(200, 3, a, MomentumParams { tick_size: tick, p_cancel: 0.4, trade_vol: 3, decay: 0.5, demand: 2.0, scale: 3.0, order_ratio: 0.5, price_dist_mu: 0.0, price_dist_sigma: 2.0 })
}

pub const COMPOSITIONS: [&str; 9] = ["random", "noise", "momentum", "random+noise", "noise+momentum", "all-three", "nested(random+noise)+momentum", "noise x1500 (more than 1024 instructions per step)", "random x70000 (more than 65535 traders)"];

#[derive(Clone, Debug, PartialEq, Eq, PartialOrd, Ord)]
pub struct Point {
    pub comp: usize,
    pub multi: bool,
    pub seed: u64,
    pub steps: u64,
    pub tick: u32,
    pub step_size: u64,
}

/// Start time of the environment: 0 for even seeds, 1 000 003 (not a multiple of any step size used) for odd
/// seeds - a run is a function of seed and parameters whatever the clock starts at.
pub fn start_of(p: &Point) -> u64 {
    if p.seed % 2 == 1 {
        1_000_003
    } else {
        0
    }
}

/// Which driver runs the simulation
#[derive(Clone, Copy, Debug, PartialEq, Eq)]
pub enum Driver {
    Runner { progress: bool },
    /// hand-written loop `agents.update; env.step` around a recording generator
    HandRecord,
    /// hand-written loop around a generator that plays a recorded stream back
    HandPlayback,
    /// hand-written loop, one `ScriptRng` per round; in round `round` its answers start with
    /// the script handed in through `stream` (a default stream with <= d extreme deviations)
    Scripted { round: usize, rounds: usize },
}

/// records every word the wrapped generator hands out
pub struct Recorder<R: RngCore> {
    inner: R,
    pub words: Vec<Ans>,
}
impl<R: RngCore> RngCore for Recorder<R> {
    fn next_u32(&mut self) -> u32 {
        let v = self.inner.next_u32();
        self.words.push(Ans::Raw(v as u64));
        v
    }
    fn next_u64(&mut self) -> u64 {
        let v = self.inner.next_u64();
        self.words.push(Ans::Raw(v));
        v
    }
    fn fill_bytes(&mut self, dest: &mut [u8]) {
        for chunk in dest.chunks_mut(8) {
            let v = self.next_u64().to_le_bytes();
            chunk.copy_from_slice(&v[..chunk.len()]);
        }
    }
    fn try_fill_bytes(&mut self, dest: &mut [u8]) -> Result<(), rand::Error> {
        self.fill_bytes(dest);
        Ok(())
    }
}

fn digest_env(e: &Env) -> (u64, u64) {
    let orders: Vec<OrderRec> = e.get_orders().into_iter().map(OrderRec::of).collect();
    let trades: Vec<TradeRec> = e.get_trades().iter().map(TradeRec::of).collect();
    let h = e.get_level_2_data_history();
    let activity = orders.len() as u64 + trades.len() as u64;
    (
        util::fnv_of(&(
            &orders,
            &trades,
            &h.prices,
            &h.volumes,
            h.volumes_at_levels.0.to_vec(),
            h.volumes_at_levels.1.to_vec(),
            h.orders_at_levels.0.to_vec(),
            h.orders_at_levels.1.to_vec(),
            e.get_trade_vols(),
            e.get_orderbook().get_time(),
        )),
        activity,
    )
}

fn digest_menv(e: &MarketEnv<2, 10>) -> (u64, u64) {
    let mut parts = Vec::new();
    let mut activity = 0;
    for a in 0..2 {
        let orders: Vec<OrderRec> = e.get_orders(a).into_iter().map(OrderRec::of).collect();
        let trades: Vec<TradeRec> = e.get_trades(a).iter().map(TradeRec::of).collect();
        let h = e.get_level_2_data_history(a);
        activity += orders.len() as u64 + trades.len() as u64;
        parts.push(util::fnv_of(&(
            &orders,
            &trades,
            &h.prices,
            &h.volumes,
            h.volumes_at_levels.0.to_vec(),
            h.volumes_at_levels.1.to_vec(),
            h.orders_at_levels.0.to_vec(),
            h.orders_at_levels.1.to_vec(),
            e.get_trade_vols(a),
        )));
    }
    (util::fnv_of(&(parts, e.get_market().get_time())), activity)
}

fn drive_single<A: AgentSet>(p: &Point, agents: &mut A, d: Driver, stream: &mut Vec<Ans>) -> (u64, u64) {
    let mut env = Env::new(start_of(p), p.tick, p.step_size, true);
    // a resting two-sided book so that momentum and noise agents see a finite mid-price
    env.place_order(bourse_book::types::Side::Bid, 20, 9999, Some(98 * p.tick)).unwrap();
    env.place_order(bourse_book::types::Side::Ask, 20, 9999, Some(102 * p.tick)).unwrap();
    match d {
        Driver::Runner { progress } => sim_runner(&mut env, agents, p.seed, p.steps, progress),
        Driver::HandRecord => {
            let mut rng = Recorder { inner: Xoroshiro128StarStar::seed_from_u64(p.seed), words: vec![] };
            for _ in 0..p.steps {
                agents.update(&mut env, &mut rng);
                env.step(&mut rng);
            }
            *stream = rng.words;
        }
        Driver::HandPlayback => {
            let mut rng = ScriptRng::new(stream.clone(), 0);
            rng.budget = stream.len() as u64 + 100_000;
            for _ in 0..p.steps {
                agents.update(&mut env, &mut rng);
                env.step(&mut rng);
            }
            if rng.pos != stream.len() {
                return (0, u64::MAX);
            }
        }
        Driver::Scripted { round, rounds } => {
            for r in 0..rounds {
                let mut rng = ScriptRng::new(if r == round { stream.clone() } else { vec![] }, p.seed + r as u64);
                agents.update(&mut env, &mut rng);
                env.step(&mut rng);
            }
        }
    }
    digest_env(&env)
}

fn drive_multi<A: MarketAgentSet>(p: &Point, agents: &mut A, d: Driver, stream: &mut Vec<Ans>) -> (u64, u64) {
    let mut env: MarketEnv<2, 10> = MarketEnv::new(start_of(p), [p.tick, p.tick], p.step_size, true);
    for a in 0..2 {
        env.place_order(a, bourse_book::types::Side::Bid, 20, 9999, Some(98 * p.tick)).unwrap();
        env.place_order(a, bourse_book::types::Side::Ask, 20, 9999, Some(102 * p.tick)).unwrap();
    }
    match d {
        Driver::Runner { progress } => market_sim_runner(&mut env, agents, p.seed, p.steps, progress),
        Driver::HandRecord => {
            let mut rng = Recorder { inner: Xoroshiro128StarStar::seed_from_u64(p.seed), words: vec![] };
            for _ in 0..p.steps {
                agents.update(&mut env, &mut rng);
                env.step(&mut rng);
            }
            *stream = rng.words;
        }
        Driver::HandPlayback => {
            let mut rng = ScriptRng::new(stream.clone(), 0);
            rng.budget = stream.len() as u64 + 100_000;
            for _ in 0..p.steps {
                agents.update(&mut env, &mut rng);
                env.step(&mut rng);
            }
            if rng.pos != stream.len() {
                return (0, u64::MAX);
            }
        }
        Driver::Scripted { round, rounds } => {
            for r in 0..rounds {
                let mut rng = ScriptRng::new(if r == round { stream.clone() } else { vec![] }, p.seed + r as u64);
                agents.update(&mut env, &mut rng);
                env.step(&mut rng);
            }
        }
    }
    digest_menv(&env)
}

/// run one grid point under one driver; returns (digest, activity)
pub fn run_point(p: &Point, d: Driver, stream: &mut Vec<Ans>) -> (u64, u64) {
    let t = p.tick;
    if !p.multi {
        match p.comp {
            0 => drive_single(p, &mut SetR { r: rnd(t) }, d, stream),
            1 => drive_single(p, &mut SetN { n: noise(t) }, d, stream),
            2 => drive_single(p, &mut SetM { m: mom(t) }, d, stream),
            3 => drive_single(p, &mut SetRN { r: rnd(t), n: noise(t) }, d, stream),
            4 => drive_single(p, &mut SetNM { n: noise(t), m: mom(t) }, d, stream),
            5 => drive_single(p, &mut SetAll { r: rnd(t), n: noise(t), m: mom(t) }, d, stream),
            7 => drive_single(p, &mut SetN { n: NoiseAgent::new(100, 1500, NoiseAgentParams { tick_size: t, p_limit: 1.0, p_market: 0.1, p_cancel: 0.1, trade_vol: 3, price_dist_mu: 0.0, price_dist_sigma: 2.0 }) }, d, stream),
            8 => drive_single(p, &mut SetR { r: RandomAgents::new(70_000, (90, 111), (1, 10), t, 1.0) }, d, stream),
            9 => drive_single(p, &mut SetAllB { r: rnd(t), n: noise(t), m: mom(t) }, d, stream),
            10 => drive_single(p, &mut SetAllC { r: rnd(t), n: noise(t), m: mom(t) }, d, stream),
            11 => drive_single(p, &mut HandAll { r: rnd(t), n: noise(t), m: mom(t) }, d, stream),
            _ => drive_single(p, &mut SetNested { inner: SetRN { r: rnd(t), n: noise(t) }, m: mom(t) }, d, stream),
        }
    } else {
        match p.comp {
            0 => drive_multi(p, &mut MSetR { r: mrnd(0, t) }, d, stream),
            1 => drive_multi(p, &mut MSetN { n: mnoise(1, t) }, d, stream),
            2 => drive_multi(p, &mut MSetM { m: mmom(0, t) }, d, stream),
            3 => drive_multi(p, &mut MSetRN { r: mrnd(0, t), n: mnoise(1, t) }, d, stream),
            4 => drive_multi(p, &mut MSetNM { n: mnoise(0, t), m: mmom(0, t) }, d, stream),
            5 => drive_multi(p, &mut MSetAll { r: mrnd(0, t), n: mnoise(1, t), m: mmom(1, t) }, d, stream),
            7 => drive_multi(p, &mut MSetN { n: NoiseMarketAgent::new(1, 100, 1500, NoiseAgentParams { tick_size: t, p_limit: 1.0, p_market: 0.1, p_cancel: 0.1, trade_vol: 3, price_dist_mu: 0.0, price_dist_sigma: 2.0 }) }, d, stream),
            8 => drive_multi(p, &mut MSetR { r: RandomMarketAgents::new(0, 70_000, (90, 111), (1, 10), t, 1.0) }, d, stream),
            9 => drive_multi(p, &mut MSetAllB { r: mrnd(0, t), n: mnoise(1, t), m: mmom(1, t) }, d, stream),
            10 => drive_multi(p, &mut MSetAllC { r: mrnd(0, t), n: mnoise(1, t), m: mmom(1, t) }, d, stream),
            11 => drive_multi(p, &mut MHandAll { r: mrnd(0, t), n: mnoise(1, t), m: mmom(1, t) }, d, stream),
            _ => drive_multi(p, &mut MSetNested { inner: MSetRN { r: mrnd(1, t), n: mnoise(0, t) }, m: mmom(0, t) }, d, stream),
        }
    }
}

pub fn grid(t: bool) -> Vec<Point> {
    // (seeds beyond 32 bits: s and s + 2^32 must give different runs)
    let mut seeds: Vec<u64> = if t { (0..8).collect() } else { vec![0, 1] };
    seeds.extend([(1u64 << 32) + 1, (1 << 63) + 5]);
    // the ends of the seed range and the values conventions like "-1 = pick one for me" would take
    seeds.extend([u64::MAX, u64::MAX - 1, u32::MAX as u64, i64::MAX as u64]);
    let steps: Vec<u64> = if t { vec![1, 10, 50] } else { vec![10, 40] };
    let mut v = Vec::new();
    // large populations: one point each
    for comp in [7usize, 8] {
        for multi in [false, true] {
            v.push(Point { comp, multi, seed: 2, steps: 4, tick: 1, step_size: 100 });
        }
    }
    for comp in 0..7 {
        for multi in [false, true] {
            for &seed in &seeds {
                for &steps in &steps {
                    for tick in [1u32, 2, 5] {
                        for step_size in [100u64, 1_000_000] {
                            v.push(Point { comp, multi, seed, steps, tick, step_size });
                        }
                    }
                }
            }
        }
    }
    v
}

/// child process entry: prints "<index> <digest>" for every grid point
pub fn child_main(tier: &str, progress: bool) -> i32 {
    let g = grid(tier == "thorough");
    for (i, p) in g.iter().enumerate() {
        let mut s = Vec::new();
        match util::subject(|| run_point(p, Driver::Runner { progress }, &mut s)) {
            Ok((d, _)) => println!("{} {}", i, d),
            Err(m) => println!("{} PANIC {}", i, m.replace('\n', " ")),
        }
    }
    0
}

fn spawn_child(tier: &str, progress: bool) -> Result<BTreeMap<usize, String>, String> {
    spawn_child_env(tier, progress, &[])
}

fn spawn_child_env(tier: &str, progress: bool, vars: &[String]) -> Result<BTreeMap<usize, String>, String> {
    let exe = std::env::current_exe().map_err(|e| e.to_string())?;
    let mut cmd = std::process::Command::new(exe);
    for v in vars {
        cmd.env(v, "1");
    }
    let out = cmd
        .arg("c09-child")
        .arg(tier)
        .arg(if progress { "1" } else { "0" })
        .stderr(std::process::Stdio::null())
        .output()
        .map_err(|e| e.to_string())?;
    if !out.status.success() {
        return Err(format!("child exited with {:?}", out.status));
    }
    let mut m = BTreeMap::new();
    for l in String::from_utf8_lossy(&out.stdout).lines() {
        let mut it = l.splitn(2, ' ');
        if let (Some(i), Some(d)) = (it.next(), it.next()) {
            if let Ok(i) = i.parse::<usize>() {
                m.insert(i, d.to_string());
            }
        }
    }
    Ok(m)
}

// ---- two simulations advanced in lock-step on one thread -----------------------------------

/// `update(A); update(B); step(A); step(B)` on one thread must give each simulation exactly the
/// output it gives when run alone (state that lives in the thread or the process instead of the
/// environment shows up here and nowhere else).
fn interleaved_part(out: &mut Outcome) {
    use bourse_book::types::Side;
    let steps = 25u64;
    let mut pairs = 0u64;
    let mut runs = 0u64;
    // how the two simulations share a thread: 0 = each alone on a thread of its own (reference),
    // 1 = interleaved round by round, 2 = A completely then B, 3 = B completely then A
    const MODES: [&str; 4] = ["each alone on a fresh thread", "interleaved round by round on one thread", "A then B on one thread", "B then A on one thread"];
    // (ticks of A and B): different ticks, and equal ticks with different agent parameters
    for ticks in [[1u32, 5], [2, 2]] {
        for (name, mk) in [("noise", 0usize), ("momentum", 1), ("all-three", 2)] {
            for multi in [false, true] {
                pairs += 1;
                let run = move |mode: usize| -> Result<Vec<(u64, u64)>, String> {
                    // the order in which (simulation, round) pairs are executed
                    let schedule: Vec<Vec<(usize, u64)>> = match mode {
                        0 => vec![(0..steps).map(|r| (0usize, r)).collect(), (0..steps).map(|r| (1usize, r)).collect()],
                        1 => vec![(0..steps).flat_map(|r| [(0usize, r), (1usize, r)]).collect()],
                        2 => vec![(0..steps).map(|r| (0usize, r)).chain((0..steps).map(|r| (1usize, r))).collect()],
                        _ => vec![(0..steps).map(|r| (1usize, r)).chain((0..steps).map(|r| (0usize, r))).collect()],
                    };
                    let mut digests: Vec<Option<(u64, u64)>> = vec![None, None];
                    // every element of `schedule` runs on a thread of its own
                    for part in schedule {
                        let h = std::thread::spawn(move || {
                            util::subject(|| {
                                let mut res: Vec<(usize, (u64, u64))> = Vec::new();
                                if !multi {
                                    let mut envs: Vec<Env> = ticks.iter().map(|t| {
                                        let mut e = Env::new(0, *t, 100, true);
                                        e.place_order(Side::Bid, 20, 9999, Some(98 * t)).unwrap();
                                        e.place_order(Side::Ask, 20, 9999, Some(102 * t)).unwrap();
                                        e
                                    }).collect();
                                    let mut rngs: Vec<Xoroshiro128StarStar> = vec![Xoroshiro128StarStar::seed_from_u64(5), Xoroshiro128StarStar::seed_from_u64(6)];
                                    let mut ag: Vec<SetAll> = vec![SetAll { r: rnd(ticks[0]), n: noise(ticks[0]), m: mom(ticks[0]) }, SetAll { r: rnd_b(ticks[1]), n: noise_b(ticks[1]), m: mom_b(ticks[1]) }];
                                    for (i, _) in &part {
                                        match mk {
                                            0 => ag[*i].n.update(&mut envs[*i], &mut rngs[*i]),
                                            1 => ag[*i].m.update(&mut envs[*i], &mut rngs[*i]),
                                            _ => ag[*i].update(&mut envs[*i], &mut rngs[*i]),
                                        }
                                        envs[*i].step(&mut rngs[*i]);
                                    }
                                    for i in 0..2 {
                                        if part.iter().any(|(j, _)| *j == i) {
                                            res.push((i, digest_env(&envs[i])));
                                        }
                                    }
                                } else {
                                    let mut envs: Vec<MarketEnv<2, 10>> = ticks.iter().map(|t| {
                                        let mut e: MarketEnv<2, 10> = MarketEnv::new(0, [*t, *t], 100, true);
                                        for a in 0..2 {
                                            e.place_order(a, Side::Bid, 20, 9999, Some(98 * t)).unwrap();
                                            e.place_order(a, Side::Ask, 20, 9999, Some(102 * t)).unwrap();
                                        }
                                        e
                                    }).collect();
                                    let mut rngs: Vec<Xoroshiro128StarStar> = vec![Xoroshiro128StarStar::seed_from_u64(5), Xoroshiro128StarStar::seed_from_u64(6)];
                                    let mut ag: Vec<MSetAll> = vec![MSetAll { r: mrnd(0, ticks[0]), n: mnoise(1, ticks[0]), m: mmom(1, ticks[0]) }, MSetAll { r: mrnd_b(0, ticks[1]), n: mnoise_b(1, ticks[1]), m: mmom_b(1, ticks[1]) }];
                                    for (i, _) in &part {
                                        match mk {
                                            0 => ag[*i].n.update(&mut envs[*i], &mut rngs[*i]),
                                            1 => ag[*i].m.update(&mut envs[*i], &mut rngs[*i]),
                                            _ => ag[*i].update(&mut envs[*i], &mut rngs[*i]),
                                        }
                                        envs[*i].step(&mut rngs[*i]);
                                    }
                                    for i in 0..2 {
                                        if part.iter().any(|(j, _)| *j == i) {
                                            res.push((i, digest_menv(&envs[i])));
                                        }
                                    }
                                }
                                res
                            })
                        });
                        match h.join() {
                            Ok(Ok(res)) => {
                                for (i, d) in res {
                                    digests[i] = Some(d);
                                }
                            }
                            Ok(Err(m)) => return Err(m),
                            Err(_) => return Err("worker thread died".into()),
                        }
                    }
                    Ok(digests.into_iter().map(|d| d.unwrap_or((0, 0))).collect())
                };
                let reference = run(0);
                runs += 2;
                for mode in 1..4 {
                    runs += 2;
                    let replay = json!({"agents": name, "multi_asset": multi, "steps": steps, "ticks": ticks, "simulations": "A: seed 5, first parameter set; B: seed 6, second parameter set", "thread_sharing": MODES[mode]});
                    match (&reference, &run(mode)) {
                        (Ok(solo), Ok(shared)) => {
                            if solo != shared {
                                out.fail_other(
                                    "determinism/interleaved-simulations-influence-each-other",
                                    format!("{} agents, ticks {:?}: two independent simulations ({}) give outputs {:?}; each alone on a fresh thread {:?}", name, ticks, MODES[mode], shared, solo),
                                    replay,
                                );
                            }
                        }
                        (Err(m), _) | (_, Err(m)) => out.fail_other(&format!("determinism/abort/{}", util::panic_sig(m)), m.clone(), replay),
                    }
                }
            }
        }
    }
    out.add_u64("states", runs);
    out.add_u64("transitions", runs * steps);
    out.add_u64("traces_validated_against_impl", runs);
    out.set("interleaved_simulations", json!({"pairs": pairs, "steps": steps, "thread_sharing": MODES, "rule": "two simulations with different seeds, prices and AGENT PARAMETERS (and ticks 1/5 or 2/2) share one thread in three ways; each must equal the same simulation run alone on a fresh thread"}));
}

/// A short simulation run right after a LONG one on the same thread (the long one dropped
/// first), and a simulation during which every market-data view is read ONCE: both must equal
/// the plain run on a fresh thread. (Buffers recycled past a capacity threshold, per-thread pools,
/// and structures that recognise "unchanged since the last read" by a wrapping counter live here.)
fn long_run_parts(out: &mut Outcome, thorough: bool) {
    use bourse_book::types::Side;
    let mut runs = 0u64;
    let mut steps_total = 0u64;
    // (a) short run after a long run
    let short = |prelude: Option<u64>, multi: bool| -> Result<(u64, u64), String> {
        let h = std::thread::spawn(move || {
            util::subject(|| {
                if let Some(n) = prelude {
                    if !multi {
                        let mut e = Env::new(0, 1, 100, true);
                        let mut rng = Xoroshiro128StarStar::seed_from_u64(11);
                        let mut a = SetAll { r: rnd_b(1), n: noise_b(1), m: mom_b(1) };
                        for _ in 0..n {
                            a.update(&mut e, &mut rng);
                            e.step(&mut rng);
                        }
                    } else {
                        let mut e: MarketEnv<2, 10> = MarketEnv::new(0, [1, 1], 100, true);
                        let mut rng = Xoroshiro128StarStar::seed_from_u64(11);
                        let mut a = MSetAll { r: mrnd_b(0, 1), n: mnoise_b(1, 1), m: mmom_b(1, 1) };
                        for _ in 0..n {
                            a.update(&mut e, &mut rng);
                            e.step(&mut rng);
                        }
                    }
                    // (the long simulation is dropped here)
                }
                if !multi {
                    let mut e = Env::new(0, 1, 100, true);
                    e.place_order(Side::Bid, 20, 9999, Some(98)).unwrap();
                    e.place_order(Side::Ask, 20, 9999, Some(102)).unwrap();
                    let mut rng = Xoroshiro128StarStar::seed_from_u64(5);
                    let mut a = SetAll { r: rnd(1), n: noise(1), m: mom(1) };
                    for _ in 0..30 {
                        a.update(&mut e, &mut rng);
                        e.step(&mut rng);
                    }
                    digest_env(&e)
                } else {
                    let mut e: MarketEnv<2, 10> = MarketEnv::new(0, [1, 1], 100, true);
                    let mut rng = Xoroshiro128StarStar::seed_from_u64(5);
                    let mut a = MSetAll { r: mrnd(0, 1), n: mnoise(1, 1), m: mmom(1, 1) };
                    for _ in 0..30 {
                        a.update(&mut e, &mut rng);
                        e.step(&mut rng);
                    }
                    digest_menv(&e)
                }
            })
        });
        h.join().map_err(|_| "worker thread died".to_string())?
    };
    let long_lengths: &[u64] = if thorough { &[300, 1_100, 2_600, 5_000, 9_000] } else { &[300, 2_600, 5_000] };
    for multi in [false, true] {
        let fresh = short(None, multi);
        runs += 1;
        for &n in long_lengths {
            runs += 1;
            steps_total += n + 30;
            let replay = json!({"scenario": "30-step simulation right after a long one on the same thread", "long_run_steps": n, "multi_asset": multi});
            match (&fresh, &short(Some(n), multi)) {
                (Ok(a), Ok(b)) => {
                    if a != b {
                        out.fail_other(
                            "determinism/run-depends-on-earlier-simulation-on-the-thread",
                            format!("a 30-step simulation gives {:?} on a fresh thread but {:?} right after an unrelated {}-step simulation on the same thread", a, b, n),
                            replay,
                        );
                    }
                }
                (Err(m), _) | (_, Err(m)) => out.fail_other(&format!("determinism/abort/{}", util::panic_sig(m)), m.clone(), replay),
            }
        }
    }
    // (b) one read. The environment is driven by the harness itself with exactly ONE mutation of the
    // ask side per step (an order joins or leaves a level behind the touch), so that the number of
    // mutations between the read and a later recorded step passes 2^8 and 2^16 exactly.
    let one_read = |read_at: Option<usize>, steps: usize, multi: bool| -> Result<(u64, u64), String> {
        util::subject(|| {
            let mut live: std::collections::VecDeque<usize> = Default::default();
            if !multi {
                let mut e = Env::new(0, 1, 10, true);
                e.place_order(Side::Ask, 3, 1, Some(100)).unwrap();
                e.place_order(Side::Bid, 3, 1, Some(90)).unwrap();
                let mut rng = Xoroshiro128StarStar::seed_from_u64(1);
                e.step(&mut rng);
                for k in 0..steps {
                    if read_at == Some(k) {
                        let b = e.get_orderbook();
                        let _ = (b.level_1_data(), b.level_2_data(), b.bid_ask(), b.ask_best_vol_and_orders(), b.bid_best_vol_and_orders(), b.ask_levels(), b.bid_levels(), b.mid_price(), e.level_2_data().ask_vol);
                    }
                    if live.len() < 2 || k % 2 == 0 {
                        live.push_back(e.place_order(Side::Ask, 1 + (k % 3) as u32, 2, Some(if k % 4 < 2 { 100 } else { 102 })).unwrap());
                    } else {
                        e.cancel_order(live.pop_front().unwrap());
                    }
                    e.step(&mut rng);
                }
                digest_env(&e)
            } else {
                let mut e: MarketEnv<2, 10> = MarketEnv::new(0, [1, 1], 10, true);
                e.place_order(1, Side::Ask, 3, 1, Some(100)).unwrap();
                e.place_order(1, Side::Bid, 3, 1, Some(90)).unwrap();
                let mut rng = Xoroshiro128StarStar::seed_from_u64(1);
                e.step(&mut rng);
                for k in 0..steps {
                    if read_at == Some(k) {
                        let b = e.get_market().get_order_book(1);
                        let _ = (b.level_1_data(), b.level_2_data(), b.bid_ask(), b.ask_best_vol_and_orders(), b.ask_levels(), e.get_market().level_2_data()[1].ask_vol, e.level_2_data()[1].ask_vol);
                    }
                    if live.len() < 2 || k % 2 == 0 {
                        live.push_back(e.place_order(1, Side::Ask, 1 + (k % 3) as u32, 2, Some(if k % 4 < 2 { 100 } else { 102 })).unwrap().1);
                    } else {
                        e.cancel_order((1, live.pop_front().unwrap()));
                    }
                    e.step(&mut rng);
                }
                digest_menv(&e)
            }
        })
    };
    let horizon = if thorough { 131_200 } else { 65_700 };
    for multi in [false, true] {
        let plain = one_read(None, horizon, multi);
        runs += 1;
        steps_total += horizon as u64;
        for read_at in [0usize, 1, 2, 3, 10, 100] {
            runs += 1;
            steps_total += horizon as u64;
            let replay = json!({"scenario": "harness-driven environment, one mutation of the ask side per step, every view read once", "read_before_step": read_at, "steps": horizon, "multi_asset": multi});
            match (&plain, &one_read(Some(read_at), horizon, multi)) {
                (Ok(a), Ok(b)) => {
                    if a != b {
                        out.fail_other(
                            "determinism/one-read-changes-the-recorded-run",
                            format!("{} steps with one order joining or leaving the ask side per step: recorded output {:?}; with every view of the book read once before step {} it is {:?}", horizon, a, read_at, b),
                            replay,
                        );
                    }
                }
                (Err(m), _) | (_, Err(m)) => out.fail_other(&format!("determinism/abort/{}", util::panic_sig(m)), m.clone(), replay),
            }
        }
    }
    out.add_u64("states", runs);
    out.add_u64("transitions", steps_total);
    out.add_u64("traces_validated_against_impl", runs);
    out.set("long_runs", json!({"short_run_after_long_run": {"long_run_steps": long_lengths, "short_run_steps": 30}, "one_read": {"steps": horizon, "read_before_step": [0, 1, 2, 3, 10, 100], "mutations_of_the_ask_side_per_step": "1 (an order joins or leaves the touch level or the level two ticks behind it)"}, "runs": runs}));
}

/// environment variables the library reads (scanned from its sources): a child process is run
/// with each of them set; the output must not depend on them
fn env_vars_read_by_the_library() -> Vec<String> {
    let repo = std::env::var("VERIF_REPO").unwrap_or_else(|_| "/repo".into());
    let mut names = std::collections::BTreeSet::new();
    fn walk(dir: &std::path::Path, names: &mut std::collections::BTreeSet<String>) {
        let Ok(rd) = std::fs::read_dir(dir) else { return };
        for e in rd.flatten() {
            let p = e.path();
            if p.is_dir() {
                if p.file_name().map_or(false, |n| n == "target" || n == "tests") {
                    continue;
                }
                walk(&p, names);
            } else if p.extension().map_or(false, |x| x == "rs") {
                if let Ok(txt) = std::fs::read_to_string(&p) {
                    for key in ["var(", "var_os("] {
                        let mut rest = txt.as_str();
                        while let Some(i) = rest.find(key) {
                            let after = &rest[i + key.len()..];
                            let after = after.trim_start();
                            if let Some(stripped) = after.strip_prefix('"') {
                                if let Some(j) = stripped.find('"') {
                                    let name = &stripped[..j];
                                    if !name.is_empty() && name.chars().all(|c| c.is_ascii_alphanumeric() || c == '_') {
                                        names.insert(name.to_string());
                                    }
                                }
                            }
                            rest = &rest[i + key.len()..];
                        }
                    }
                }
            }
        }
    }
    walk(std::path::Path::new(&format!("{}/crates", repo)), &mut names);
    names.into_iter().collect()
}

// ---- step-count sweep: every run length up to a bound, both progress-bar branches -----------

pub fn sweep_points(t: bool) -> Vec<Point> {
    let mut counts: Vec<u64> = (0..=(if t { 300 } else { 130 })).collect();
    counts.extend([255, 256, 257, 511, 512, 513]);
    if t {
        counts.extend([1000, 1023, 1024, 1025, 2047, 2048, 2049]);
    }
    let mut v = Vec::new();
    for comp in [0usize, 5, 6] {
        for multi in [false, true] {
            for &steps in &counts {
                v.push(Point { comp, multi, seed: 3, steps, tick: 1, step_size: 100 });
            }
        }
    }
    v
}

fn par_digests(points: &[Point], d: Driver) -> Vec<Result<(u64, u64), String>> {
    let next = std::sync::atomic::AtomicUsize::new(0);
    let res = std::sync::Mutex::new(Vec::new());
    std::thread::scope(|s| {
        for _ in 0..util::n_threads() {
            s.spawn(|| loop {
                let i = next.fetch_add(1, std::sync::atomic::Ordering::Relaxed);
                if i >= points.len() {
                    break;
                }
                let mut stream = Vec::new();
                let r = util::subject(|| run_point(&points[i], d, &mut stream));
                res.lock().unwrap().push((i, r));
            });
        }
    });
    let mut v = res.into_inner().unwrap();
    v.sort_by_key(|x| x.0);
    v.into_iter().map(|x| x.1).collect()
}

pub fn child_sweep_main(tier: &str, progress: bool) -> i32 {
    let pts = sweep_points(tier == "thorough");
    for (i, r) in par_digests(&pts, Driver::Runner { progress }).into_iter().enumerate() {
        match r {
            Ok((d, _)) => println!("{} {}", i, d),
            Err(m) => println!("{} PANIC {}", i, m.replace('\n', " ")),
        }
    }
    0
}

fn spawn_child_mode(mode: &str, tier: &str, extra: &[&str]) -> Result<BTreeMap<usize, String>, String> {
    let exe = std::env::current_exe().map_err(|e| e.to_string())?;
    let out = std::process::Command::new(exe)
        .arg(mode)
        .arg(tier)
        .args(extra)
        .stderr(std::process::Stdio::null())
        .output()
        .map_err(|e| e.to_string())?;
    if !out.status.success() {
        return Err(format!("child exited with {:?}", out.status));
    }
    let mut m = BTreeMap::new();
    for l in String::from_utf8_lossy(&out.stdout).lines() {
        let mut it = l.splitn(2, ' ');
        if let (Some(i), Some(d)) = (it.next(), it.next()) {
            if let Ok(i) = i.parse::<usize>() {
                m.insert(i, d.to_string());
            }
        }
    }
    Ok(m)
}

/// Every run length 0..=N (and the neighbours of larger powers of two): the library runner in a
/// fresh process with the progress bar off and on must equal the hand-written loop
/// `for _ in 0..n { agents.update; env.step }` run here.
fn sweep_part(out: &mut Outcome, tier: &str) {
    let pts = sweep_points(tier == "thorough");
    let hand = par_digests(&pts, Driver::HandRecord);
    let kids: Vec<(bool, Result<BTreeMap<usize, String>, String>)> = std::thread::scope(|s| {
        let hs: Vec<_> = [false, true]
            .into_iter()
            .map(|pr| s.spawn(move || (pr, spawn_child_mode("c09-child-sweep", tier, &[if pr { "1" } else { "0" }]))))
            .collect();
        hs.into_iter().map(|h| h.join().unwrap()).collect()
    });
    let mut distinct = BTreeSet::new();
    for (i, p) in pts.iter().enumerate() {
        let replay = json!({"composition": COMPOSITIONS[p.comp], "multi_asset": p.multi, "seed": p.seed, "steps": p.steps, "tick": p.tick, "step_size": p.step_size});
        let h = match &hand[i] {
            Ok((d, _)) => *d,
            Err(m) => {
                out.fail_other(&format!("determinism/abort/{}", util::panic_sig(m)), format!("hand-written loop, {} steps: {}", p.steps, m), replay);
                continue;
            }
        };
        distinct.insert(h);
        for (pr, kid) in &kids {
            match kid {
                Err(e) => {
                    if i == 0 {
                        out.machinery_errors.push(format!("sweep child failed: {}", e));
                    }
                }
                Ok(m) => match m.get(&i) {
                    None => out.machinery_errors.push(format!("sweep child printed nothing for point {}", i)),
                    Some(d) if d.parse::<u64>().ok() == Some(h) => {}
                    Some(d) => out.fail_other(
                        &format!("determinism/run-length/{}", if *pr { "progress-bar-on" } else { "progress-bar-off" }),
                        format!("{} steps: the library runner (fresh process, progress bar {}) gave {} but the hand-written update/step loop gave digest {}", p.steps, if *pr { "on" } else { "off" }, d, h),
                        replay.clone(),
                    ),
                },
            }
        }
    }
    out.add_u64("states", pts.len() as u64 * 3);
    out.add_u64("transitions", pts.iter().map(|p| p.steps).sum::<u64>() * 3);
    out.add_u64("traces_validated_against_impl", pts.len() as u64 * 3);
    out.set(
        "run_length_sweep",
        json!({"points": pts.len(), "step_counts": format!("every n in 0..={} plus the neighbours of 256, 512{}", if tier == "thorough" { 300 } else { 130 }, if tier == "thorough" { ", 1000, 1024, 2048" } else { "" }),
               "compositions": [COMPOSITIONS[0], COMPOSITIONS[5], COMPOSITIONS[6]], "environments": ["Env", "MarketEnv<2,10>"],
               "drivers": ["hand-written loop (this process)", "library runner, fresh process, progress bar off", "library runner, fresh process, progress bar on"],
               "distinct_outputs": distinct.len()}),
    );
}

// ---- model-checking part: every generator stream within a deviation bound -------------------

const SCRIPT_ROUNDS: usize = 4;

/// (jobs, scripts): a job is (grid point, round whose generator is scripted)
pub fn scripted_space(t: bool) -> (Vec<(Point, usize)>, Vec<Vec<Ans>>) {
    let mut jobs = Vec::new();
    for comp in 0..7 {
        for multi in [false, true] {
            for tick in [1u32, 2] {
                for round in 0..SCRIPT_ROUNDS {
                    jobs.push((Point { comp, multi, seed: 1, steps: SCRIPT_ROUNDS as u64, tick, step_size: 100 }, round));
                }
            }
        }
    }
    let values = crate::agentsx::extreme_values();
    let scripts = if t {
        crate::agentsx::scripts_with_deviations(1, 12, &values, 2)
    } else {
        crate::agentsx::scripts_with_deviations(1, 16, &values, 1)
    };
    (jobs, scripts)
}

/// digest of every (job, script) execution, in index order; `Err` = the library panicked
pub fn scripted_digests(t: bool) -> Vec<Result<(u64, u64), String>> {
    let (jobs, scripts) = scripted_space(t);
    let total = jobs.len() * scripts.len();
    let next = std::sync::atomic::AtomicUsize::new(0);
    let res: std::sync::Mutex<Vec<(usize, Vec<Result<(u64, u64), String>>)>> = std::sync::Mutex::new(Vec::new());
    std::thread::scope(|s| {
        for _ in 0..util::n_threads() {
            s.spawn(|| loop {
                let j = next.fetch_add(1, std::sync::atomic::Ordering::Relaxed);
                if j >= jobs.len() {
                    break;
                }
                let (p, round) = &jobs[j];
                let mut v = Vec::with_capacity(scripts.len());
                for sc in &scripts {
                    let mut stream = sc.clone();
                    v.push(util::subject(|| run_point(p, Driver::Scripted { round: *round, rounds: SCRIPT_ROUNDS }, &mut stream)));
                }
                res.lock().unwrap().push((j, v));
            });
        }
    });
    let mut parts = res.into_inner().unwrap();
    parts.sort_by_key(|x| x.0);
    let out: Vec<_> = parts.into_iter().flat_map(|x| x.1).collect();
    assert_eq!(out.len(), total);
    out
}

pub fn child_scripted_main(tier: &str) -> i32 {
    for (i, r) in scripted_digests(tier == "thorough").into_iter().enumerate() {
        match r {
            Ok((d, _)) => println!("{} {}", i, d),
            Err(m) => println!("{} PANIC {}", i, m.replace('\n', " ")),
        }
    }
    0
}

fn spawn_child_scripted(tier: &str) -> Result<BTreeMap<usize, String>, String> {
    let exe = std::env::current_exe().map_err(|e| e.to_string())?;
    let out = std::process::Command::new(exe)
        .arg("c09-child-scripted")
        .arg(tier)
        .stderr(std::process::Stdio::null())
        .output()
        .map_err(|e| e.to_string())?;
    if !out.status.success() {
        return Err(format!("child exited with {:?}", out.status));
    }
    let mut m = BTreeMap::new();
    for l in String::from_utf8_lossy(&out.stdout).lines() {
        let mut it = l.splitn(2, ' ');
        if let (Some(i), Some(d)) = (it.next(), it.next()) {
            if let Ok(i) = i.parse::<usize>() {
                m.insert(i, d.to_string());
            }
        }
    }
    Ok(m)
}

/// Every generator stream that deviates from the default stream in at most d of the first N
/// answers of one round (answers from the extreme-value set), for every composition: the run is
/// executed twice in this process and once in a fresh child process; all three must agree.
fn scripted_part(out: &mut Outcome, tier: &str) {
    let t = tier == "thorough";
    let (jobs, scripts) = scripted_space(t);
    let a = scripted_digests(t);
    let b = scripted_digests(t);
    let kid = spawn_child_scripted(tier);
    let mut distinct: BTreeSet<u64> = BTreeSet::new();
    let mut steps = 0u64;
    for (i, ra) in a.iter().enumerate() {
        let (p, round) = &jobs[i / scripts.len()];
        let sc = &scripts[i % scripts.len()];
        let replay = json!({"composition": COMPOSITIONS[p.comp], "multi_asset": p.multi, "tick": p.tick, "step_size": p.step_size, "rounds": SCRIPT_ROUNDS,
            "scripted_round": round, "fallback_stream_seed_of_round_r": format!("{}+r", p.seed), "script": crate::agentsx::ans_json(sc)});
        steps += SCRIPT_ROUNDS as u64;
        match ra {
            Err(m) => out.fail_other(&format!("determinism/abort/{}", util::panic_sig(m)), format!("scripted stream: {}", m), replay.clone()),
            Ok((da, _)) => {
                distinct.insert(*da);
                match &b[i] {
                    Ok((db, _)) if db == da => {}
                    other => out.fail_other(
                        "determinism/scripted-stream/second-run-same-process",
                        format!("same scripted generator stream, different output: first run digest {}, second run {:?}", da, other),
                        replay.clone(),
                    ),
                }
                match &kid {
                    Ok(m) => match m.get(&i) {
                        Some(d) if d.parse::<u64>().ok() == Some(*da) => {}
                        Some(d) => out.fail_other(
                            "determinism/scripted-stream/other-process",
                            format!("same scripted generator stream, different output in a fresh process: here digest {}, child {}", da, d),
                            replay.clone(),
                        ),
                        None => out.machinery_errors.push(format!("scripted child printed nothing for execution {}", i)),
                    },
                    Err(e) => {
                        if i == 0 {
                            out.machinery_errors.push(format!("scripted child process failed: {}", e))
                        }
                    }
                }
            }
        }
    }
    out.add_u64("states", a.len() as u64 * 3);
    out.add_u64("transitions", steps * 3);
    out.add_u64("traces_validated_against_impl", a.len() as u64 * 3);
    out.set(
        "scripted_streams",
        json!({
            "compositions": 7, "environments": ["Env", "MarketEnv<2,10>"], "ticks": [1, 2], "rounds": SCRIPT_ROUNDS,
            "scripts_per_round": scripts.len(), "deviation_bound": if t { 2 } else { 1 }, "scripted_draws": if t { 12 } else { 16 },
            "executions_per_stream": "2 in this process + 1 in a fresh child process", "streams": a.len(),
            "distinct_outputs": distinct.len(),
            "rule": "one ScriptRng per round (update + step); in the scripted round its first N answers are the default stream with <= d answers replaced by an extreme word (0, all-ones, sign/threshold-adjacent words), afterwards the default stream; every such stream is executed three times and all outputs must be bit-identical",
        }),
    );
    if distinct.len() < 10 {
        out.machinery_errors.push(format!("vacuous: scripted streams produced only {} distinct outputs", distinct.len()));
    }
    let k = scripts.len() / 2;
    out.push("samples", json!({"composition": COMPOSITIONS[5], "multi_asset": false, "tick": 2, "scripted_round": 1, "script": crate::agentsx::ans_json(&scripts[k])}));
}

/// A derived set is a function of its declaration: the three-member composition declared three times
/// (identical text) and once with the update written out by hand in declaration order must produce
/// the same run for the same seed and parameters (whatever a derive does at expansion time - hashing,
/// sorting, grouping - must not depend on anything but the declaration).
fn twin_declarations_part(out: &mut Outcome, t: bool) {
    let mut runs = 0u64;
    for multi in [false, true] {
        for seed in if t { vec![0u64, 1, 2, 3] } else { vec![0u64, 1] } {
            for tick in [1u32, 2] {
                let mut none = Vec::new();
                let mut ds: Vec<(usize, Result<(u64, u64), String>)> = Vec::new();
                for comp in [5usize, 9, 10, 11] {
                    let p = Point { comp, multi, seed, steps: 30, tick, step_size: 100 };
                    ds.push((comp, util::subject(|| run_point(&p, Driver::Runner { progress: false }, &mut none))));
                    runs += 1;
                }
                let replay = json!({"engine": "c09", "part": "twin declarations", "multi_asset": multi, "seed": seed, "tick": tick, "steps": 30});
                let first = ds[0].1.clone();
                for (comp, d) in &ds {
                    match (d, &first) {
                        (Err(m), _) => out.fail_other(&format!("determinism/abort/{}", util::panic_sig(m)), format!("twin declaration {}: {}", comp, m), replay.clone()),
                        (Ok(a), Ok(b)) if a.0 != b.0 => out.fail_other(
                            "determinism/identical-declarations-differ",
                            format!("the set (random, noise, momentum) declared as composition {} (9, 10: the same declaration repeated; 11: update written out by hand in declaration order) gave digest {} but the first declaration gave {} - same seed, same parameters", comp, a.0, b.0),
                            replay.clone(),
                        ),
                        _ => {}
                    }
                }
            }
        }
    }
    out.set("twin_declarations", json!({"runs": runs, "rule": "the three-member set declared three times and once hand-written, Env and MarketEnv<2,10>, 30 steps: equal outputs"}));
}

pub fn c09(tier: &str) -> i32 {
    let mut out = Outcome::new("C09", tier, "model_checking");
    twin_declarations_part(&mut out, tier == "thorough");
    scripted_part(&mut out, tier);
    sweep_part(&mut out, tier);
    interleaved_part(&mut out);
    long_run_parts(&mut out, tier == "thorough");
    let env_vars = env_vars_read_by_the_library();
    out.set("environment_variables_read_by_the_library", json!(env_vars));
    if !env_vars.is_empty() {
        out.push("notes", json!(format!("the library reads environment variables {:?}: an extra child process runs the grid with all of them set to \"1\"", env_vars)));
    }
    let t = tier == "thorough";
    let g = grid(t);
    // children first (they run concurrently with nothing else; each is single-threaded)
    let kids: Vec<(bool, Result<BTreeMap<usize, String>, String>)> = std::thread::scope(|s| {
        let hs: Vec<_> = [(false), (true), (false)].into_iter().map(|pr| s.spawn(move || (pr, spawn_child(tier, pr)))).collect();
        hs.into_iter().map(|h| h.join().unwrap()).collect()
    });
    // one more child with every environment variable the library reads set to "1"
    let mut kids = kids;
    if !env_vars.is_empty() {
        kids.push((false, spawn_child_env(tier, false, &env_vars)));
    }
    let mut evaluations = 0u64;
    let mut digests_by_cfg: BTreeMap<(usize, bool, u64, u32, u64), BTreeMap<u64, u64>> = BTreeMap::new();
    let mut nontrivial: BTreeSet<u64> = BTreeSet::new();
    let mut samples = Vec::new();
    let results: Vec<(usize, Vec<(String, Result<(u64, u64), String>)>)> = {
        let next = std::sync::atomic::AtomicUsize::new(0);
        let res = std::sync::Mutex::new(Vec::new());
        std::thread::scope(|s| {
            for _ in 0..util::n_threads() {
                s.spawn(|| loop {
                    let i = next.fetch_add(1, std::sync::atomic::Ordering::Relaxed);
                    if i >= g.len() {
                        break;
                    }
                    let p = &g[i];
                    let mut runs = Vec::new();
                    let mut stream = Vec::new();
                    let mut none = Vec::new();
                    runs.push(("runner, 1st run".to_string(), util::subject(|| run_point(p, Driver::Runner { progress: false }, &mut none))));
                    runs.push(("runner, 2nd run in the same process".to_string(), util::subject(|| run_point(p, Driver::Runner { progress: false }, &mut none))));
                    runs.push(("hand-written loop, recording generator".to_string(), util::subject(|| run_point(p, Driver::HandRecord, &mut stream))));
                    runs.push(("hand-written loop, play-back of the recorded stream".to_string(), util::subject(|| run_point(p, Driver::HandPlayback, &mut stream))));
                    res.lock().unwrap().push((i, runs));
                });
            }
        });
        res.into_inner().unwrap()
    };
    for (i, runs) in results {
        let p = &g[i];
        let mut all: Vec<(String, Result<(u64, u64), String>)> = runs;
        for (k, (progress, kid)) in kids.iter().enumerate() {
            let label = if k >= 3 { format!("child process #{} (environment variables read by the library set)", k) } else { format!("child process #{} (progress bar {})", k, if *progress { "on" } else { "off" }) };
            match kid {
                Ok(m) => match m.get(&i) {
                    Some(d) => match d.parse::<u64>() {
                        Ok(v) => all.push((label, Ok((v, 1)))),
                        Err(_) => all.push((label, Err(d.clone()))),
                    },
                    None => out.machinery_errors.push(format!("child {} printed nothing for grid point {}", k, i)),
                },
                Err(e) => out.machinery_errors.push(format!("child process failed: {}", e)),
            }
        }
        evaluations += all.len() as u64;
        let replay = json!({"composition": COMPOSITIONS[p.comp], "multi_asset": p.multi, "seed": p.seed, "steps": p.steps, "tick": p.tick, "step_size": p.step_size});
        let mut first: Option<(String, u64)> = None;
        for (label, r) in &all {
            match r {
                Err(m) => out.fail_other(&format!("determinism/abort/{}", util::panic_sig(m)), format!("{}: {}", label, m), replay.clone()),
                Ok((_, act)) if *act == u64::MAX => out.fail_other(
                    "determinism/playback-consumed-different-number-of-words",
                    format!("{}: the run consumed a different number of generator words than were recorded", label),
                    replay.clone(),
                ),
                Ok((d, _)) => match &first {
                    None => first = Some((label.clone(), *d)),
                    Some((l0, d0)) => {
                        if d != d0 {
                            let kind = if label.contains("child") {
                                if label.contains("bar on") { "progress-bar-or-process" } else { "other-process" }
                            } else if label.contains("2nd") {
                                "second-run-same-process"
                            } else if label.contains("play-back") {
                                "playback-of-recorded-stream"
                            } else {
                                "hand-written-loop"
                            };
                            out.fail_other(
                                &format!("determinism/{}", kind),
                                format!("same seed and parameters, different output: '{}' gave digest {} but '{}' gave {}", l0, d0, label, d),
                                replay.clone(),
                            );
                        }
                    }
                },
            }
        }
        if let (Some((_, d)), Some((_, Ok((_, act))))) = (&first, all.first()) {
            // "different seeds give different runs" is only demanded of runs with enough random
            // decisions behind them: at least 10 orders/trades beyond the harness's own resting quotes
            // (a one-step run of a momentum agent flips a handful of coins: two seeds may well agree)
            let own = if p.multi { 4 } else { 2 };
            if *act >= own + 10 {
                nontrivial.insert(*d);
                *digests_by_cfg.entry((p.comp, p.multi, p.steps, p.tick, p.step_size)).or_default().entry(*d).or_insert(0) += 1;
            }
            if samples.len() < 3 && p.seed == 1 && p.tick == 2 {
                samples.push(json!({"point": replay, "digest": d.to_string(), "orders_plus_trades": act}));
            }
        }
    }
    // different seeds give different runs
    let seeds_n = g.iter().map(|p| p.seed).collect::<BTreeSet<_>>().len() as u64;
    for (cfg, ds) in &digests_by_cfg {
        let total: u64 = ds.values().sum();
        if total == seeds_n && (ds.len() as u64) < seeds_n {
            out.fail_other(
                "determinism/different-seeds-same-run",
                format!("configuration {:?}: {} seeds produced only {} distinct outputs", cfg, seeds_n, ds.len()),
                json!({"composition": COMPOSITIONS[cfg.0], "multi_asset": cfg.1, "steps": cfg.2, "tick": cfg.3, "step_size": cfg.4}),
            );
        }
    }
    out.set("evaluations", json!(evaluations));
    out.set("distinct_nontrivial", json!(nontrivial.len()));
    out.set("rule", json!("grid = 7 agent compositions (derive macros, incl. a nested set) x {Env, MarketEnv<2>} x seeds x step counts x tick {1,2,5} x step size {100, 10^6}; each point is run by: library runner twice in-process, 3 child processes (progress bar off/on/off), hand-written loop around a recording Xoroshiro128**, and a play-back generator fed the recorded words; all digests (orders, trades, level-2 history, per-step volumes, clock) must agree. A point is non-trivial if it produced at least 10 orders/trades beyond the harness's own resting quotes (only those are required to differ between seeds); distinct = distinct digests."));
    out.set("grid_points", json!(g.len()));
    for s in samples {
        out.push("samples", s);
    }
    if nontrivial.len() < 2 {
        out.machinery_errors.push("vacuous: fewer than two non-trivial distinct runs".into());
    }
    out.assumptions = vec![
        "generator streams are enumerated within a deviation bound (see scripted_streams); beyond the scripted prefix the default SplitMix64 stream continues".into(),
        "the seed grid (evaluations / distinct_nontrivial / grid_points) enumerates a finite list of seeds of an unbounded domain".into(),
    ];
    out.finish()
}
