//! C15: the processing order within a step is exactly a library shuffle of the submission
//! order driven only by the generator (exact decision through scripted generators, DESIGN §3).

use crate::envx::AnyEnv;
use crate::report::Outcome;
use crate::scriptrng::{all_index_scripts, rand_shuffle_order, Ans, ScriptRng};
use crate::util;
use serde_json::json;
use std::collections::{BTreeMap, BTreeSet};
use std::sync::atomic::{AtomicU64, Ordering};
use std::sync::Mutex;

#[derive(Clone, Copy, Debug, PartialEq, Eq, Hash, PartialOrd, Ord)]
pub enum Kind {
    Limit,
    Market,
    Cancel,
    Modify,
    /// cancel / re-pricing modify aimed at a limit order submitted earlier in the SAME batch
    /// (a no-op when processed before that order's placement)
    CancelNew,
    ModifyNew,
    /// cancel aimed at an order that was already cancelled before the step (a no-op wherever it is processed)
    CancelDead,
}

#[derive(Clone, Copy, Debug, PartialEq, Eq, Hash, PartialOrd, Ord)]
pub struct Item {
    pub kind: Kind,
    pub asset: usize,
}

/// Environment configuration a batch is run under
#[derive(Clone, Copy, Debug, PartialEq, Eq)]
pub struct Setup {
    pub step_size: u64,
    /// 0 = trading on, 1 = constructed with trading off, 2 = switched off after the set-up step,
    /// 3 = constructed with trading off, the set-up leaves the book crossed, trading is switched ON
    /// right before the batch is submitted (the step that resumes trading on a crossed book);
    /// 4 = trading on and a redundant enable_trading() called between two submissions of the batch,
    /// 5 = constructed with trading off and a redundant disable_trading() between two submissions
    pub trading: u8,
}

pub const DEFAULT_SETUP: Setup = Setup { step_size: 100_000, trading: 0 };

fn setup_json(s: &Setup) -> serde_json::Value {
    let tr = ["on", "off at construction", "disabled after the set-up step", "off at construction, book left crossed, enabled right before the batch", "on, a redundant enable_trading() between two submissions", "off at construction, a redundant disable_trading() between two submissions"][s.trading as usize];
    json!({"step_size": s.step_size, "trading": tr})
}

/// Run one batch through a real environment step under `rng`; returns the processing order
/// (`order[pos]` = index of the batch item processed at position pos) and the draws consumed.
pub fn run_batch<const A: usize>(multi: bool, items: &[Item], script: &[Ans], seed: u64) -> Result<(Vec<usize>, u64, u64), String> {
    run_batch_in::<A>(DEFAULT_SETUP, multi, items, script, seed)
}

pub fn run_batch_in<const A: usize>(su: Setup, multi: bool, items: &[Item], script: &[Ans], seed: u64) -> Result<(Vec<usize>, u64, u64), String> {
    let ticks = vec![1u32; A];
    let mut env = AnyEnv::<A, 3>::make(multi, 0, &ticks, su.step_size, su.trading != 1 && su.trading != 3 && su.trading != 5);
    // resting targets and a deep ask quote per asset
    let mut targets: Vec<Option<(usize, usize)>> = vec![None; items.len()];
    for a in 0..A {
        env.place(a, false, 1_000_000, 1, Some(5000)).map_err(|_| "setup")?;
    }
    for (i, it) in items.iter().enumerate() {
        if matches!(it.kind, Kind::Cancel | Kind::Modify | Kind::CancelDead) {
            let id = env.place(it.asset, true, 1, 2, Some(10 + i as u32)).map_err(|_| "setup")?;
            targets[i] = Some((it.asset, id.1));
        }
    }
    if items.iter().any(|it| it.kind == Kind::CancelDead) {
        // the targets of the dead cancels are placed and cancelled before the judged step
        let mut pre0 = ScriptRng::new(vec![], 4241);
        env.step(&mut pre0);
        for (i, it) in items.iter().enumerate() {
            if it.kind == Kind::CancelDead {
                let (a, id) = targets[i].unwrap();
                env.cancel(a, id);
            }
        }
    }
    if su.trading == 3 {
        // a bid above the deep ask quote: rests crossed while trading is off
        for a in 0..A {
            env.place(a, true, 1, 4, Some(6000)).map_err(|_| "setup")?;
        }
    }
    let mut pre = ScriptRng::new(vec![], 4242);
    env.step(&mut pre);
    if su.trading == 2 {
        env.disable();
    }
    if su.trading == 3 {
        env.enable();
    }
    let start = env.book(0).get_time();
    let mut ids: Vec<Option<(usize, usize)>> = vec![None; items.len()];
    for (i, it) in items.iter().enumerate() {
        if i > 0 && i == items.len() / 2 {
            // a switch that changes nothing, called while instructions are waiting
            if su.trading == 4 {
                env.enable();
            } else if su.trading == 5 {
                env.disable();
            }
        }
        match it.kind {
            Kind::Limit => ids[i] = Some(env.place(it.asset, true, 1, 3, Some(200 + i as u32)).map_err(|_| "place")?),
            Kind::Market => ids[i] = Some(env.place(it.asset, true, 1, 3, None).map_err(|_| "place")?),
            Kind::Cancel | Kind::CancelDead => {
                let (a, id) = targets[i].unwrap();
                env.cancel(a, id)
            }
            Kind::Modify => {
                let (a, id) = targets[i].unwrap();
                env.modify(a, id, Some(5000), None)
            }
            Kind::CancelNew | Kind::ModifyNew => {
                // the nearest limit order submitted earlier in this batch
                let j = (0..i).rev().find(|&j| items[j].kind == Kind::Limit).ok_or("no earlier limit order in the batch")?;
                let (a, id) = ids[j].unwrap();
                targets[i] = Some((a, id));
                if it.kind == Kind::CancelNew {
                    env.cancel(a, id)
                } else {
                    env.modify(a, id, Some(5000), None)
                }
            }
        }
    }
    let mut rng = ScriptRng::new(script.to_vec(), seed);
    env.step(&mut rng);
    let n = items.len();
    let mut order = vec![usize::MAX; n];
    let mut unobserved: Vec<usize> = Vec::new();
    for i in 0..n {
        if matches!(items[i].kind, Kind::CancelNew | Kind::ModifyNew) {
            // processed after its target's placement: the target ended at that instant; processed
            // before: a no-op, its position is the one no other instruction accounts for
            let (a, id) = targets[i].unwrap();
            if env.book(a).order(id).end_time == u64::MAX {
                unobserved.push(i);
                continue;
            }
        }
        if items[i].kind == Kind::CancelDead {
            unobserved.push(i);
            continue;
        }
        let stamp = match items[i].kind {
            Kind::Limit | Kind::Market => {
                let (a, id) = ids[i].unwrap();
                let o = env.book(a).order(id);
                o.arr_time
            }
            Kind::Cancel | Kind::Modify | Kind::CancelNew | Kind::ModifyNew | Kind::CancelDead => {
                let (a, id) = targets[i].unwrap();
                let o = env.book(a).order(id);
                o.end_time
            }
        };
        if stamp < start || stamp - start >= n as u64 {
            return Err(format!("item {} ({:?}) carries time stamp {} outside [start, start+n) with start {}", i, items[i], stamp, start));
        }
        let pos = (stamp - start) as usize;
        if order[pos] != usize::MAX {
            return Err(format!("two instructions were processed at position {}", pos));
        }
        order[pos] = i;
    }
    if unobserved.len() > 1 {
        return Err("more than one unobservable instruction in the batch (harness restriction)".into());
    }
    if let Some(&i) = unobserved.first() {
        let free: Vec<usize> = (0..n).filter(|&p| order[p] == usize::MAX).collect();
        if free.len() != 1 {
            return Err(format!("{} positions unaccounted for, one instruction without a stamp", free.len()));
        }
        order[free[0]] = i;
        if items[i].kind != Kind::CancelDead {
            // a no-op must have come before the placement it was aimed at
            let j = (0..i).rev().find(|&j| items[j].kind == Kind::Limit).unwrap();
            let pj = order.iter().position(|&x| x == j).unwrap();
            if free[0] > pj {
                return Err(format!("instruction {} ({:?}) was processed after the placement of its target and yet had no effect", i, items[i]));
            }
        }
    }
    Ok((order, rng.draws(), rng.bits()))
}

/// Several consecutive steps on ONE environment, batch k = `n` fresh limit orders shuffled under
/// `scripts[k]`; returns the processing order of every step. (An environment that carries
/// shuffle state from one step to the next shows up here, not in single-step runs.)
pub fn run_sequence<const A: usize>(multi: bool, n: usize, scripts: &[Vec<Ans>]) -> Result<Vec<(Vec<usize>, u64)>, String> {
    let ticks = vec![1u32; A];
    let mut env = AnyEnv::<A, 3>::make(multi, 0, &ticks, 100_000, true);
    let mut out = Vec::new();
    for (k, script) in scripts.iter().enumerate() {
        let start = env.book(0).get_time();
        let mut ids = Vec::new();
        for i in 0..n {
            // distinct non-crossing bid prices: nothing trades, arrival stamps tell the order
            ids.push(env.place(i % A, true, 1, 3, Some(10 + ((k * n + i) % 4000) as u32)).map_err(|_| "place")?);
        }
        let mut rng = ScriptRng::new(script.clone(), 1);
        env.step(&mut rng);
        let mut order = vec![usize::MAX; n];
        for (i, (a, id)) in ids.iter().enumerate() {
            let stamp = env.book(*a).order(*id).arr_time;
            if stamp < start || stamp - start >= n as u64 {
                return Err(format!("step {}: item {} carries time stamp {} outside [start, start+n) with start {}", k, i, stamp, start));
            }
            let pos = (stamp - start) as usize;
            if order[pos] != usize::MAX {
                return Err(format!("step {}: two instructions were processed at position {}", k, pos));
            }
            order[pos] = i;
        }
        out.push((order, rng.draws()));
    }
    Ok(out)
}

/// every pair of index scripts on two consecutive steps of equal batch size; and one long-lived
/// environment (more than 8192 instructions over its life)
fn multi_step<const A: usize>(acc: &Acc, multi: bool, nmax: usize, long_steps: usize, summary: &mut Vec<serde_json::Value>) {
    for n in 2..=nmax {
        let scripts = all_index_scripts(n);
        let mut pairs = 0u64;
        for s1 in &scripts {
            for s2 in &scripts {
                acc.execs.fetch_add(1, Ordering::Relaxed);
                pairs += 1;
                match util::subject(|| run_sequence::<A>(multi, n, &[s1.clone(), s2.clone()])).unwrap_or_else(Err) {
                    Ok(v) => {
                        for (k, sc) in [s1, s2].iter().enumerate() {
                            let (lib, lib_draws) = rand_shuffle_order(n, sc, 1);
                            if v[k].0 != lib || v[k].1 != lib_draws {
                                acc.fail(
                                    "order-depends-on-earlier-steps",
                                    format!("step {} of two consecutive steps of {} instructions: processing order {:?} ({} draws), but the generator answers alone dictate {:?} ({} draws); earlier step's script {}", k, n, v[k].0, v[k].1, lib, lib_draws, script_json(s1)),
                                    json!({"n": n, "multi": multi, "scripts": [script_json(s1), script_json(s2)]}),
                                );
                            }
                        }
                    }
                    Err(e) => acc.fail("invalid-processing-positions", e, json!({"n": n, "multi": multi, "scripts": [script_json(s1), script_json(s2)]})),
                }
            }
        }
        summary.push(json!({"two_consecutive_steps_of": n, "multi_asset": multi, "script_pairs": pairs}));
    }
    // long-lived environment
    let n = 7;
    let all = all_index_scripts(n);
    let scripts: Vec<Vec<Ans>> = (0..long_steps).map(|k| all[(k * 37 + 11) % all.len()].clone()).collect();
    acc.execs.fetch_add(long_steps as u64, Ordering::Relaxed);
    match util::subject(|| run_sequence::<A>(multi, n, &scripts)).unwrap_or_else(Err) {
        Ok(v) => {
            for (k, sc) in scripts.iter().enumerate() {
                let (lib, lib_draws) = rand_shuffle_order(n, sc, 1);
                if v[k].0 != lib || v[k].1 != lib_draws {
                    acc.fail(
                        "order-depends-on-earlier-steps",
                        format!("step {} of a long-lived environment ({} instructions so far): processing order {:?} ({} draws), but the generator answers alone dictate {:?} ({} draws)", k, k * n, v[k].0, v[k].1, lib, lib_draws),
                        json!({"n": n, "multi": multi, "step": k, "script_rule": "all_index_scripts(7)[(k*37+11) % 5040] for step k"}),
                    );
                    break;
                }
            }
        }
        Err(e) => acc.fail("invalid-processing-positions", e, json!({"n": n, "multi": multi, "long_run_steps": long_steps})),
    }
    summary.push(json!({"long_lived_environment_steps": long_steps, "batch": n, "instructions_over_its_life": long_steps * n, "multi_asset": multi}));
}

fn fact(n: usize) -> u128 {
    (1..=n as u128).product::<u128>().max(1)
}

fn log2_fact(n: usize) -> f64 {
    (2..=n).map(|k| (k as f64).log2()).sum()
}

struct Acc {
    execs: AtomicU64,
    fails: Mutex<BTreeMap<String, (String, serde_json::Value)>>,
}

impl Acc {
    fn fail(&self, sig: &str, detail: String, replay: serde_json::Value) {
        self.fails.lock().unwrap().entry(sig.to_string()).or_insert((detail, replay));
    }
}

fn script_json(s: &[Ans]) -> serde_json::Value {
    json!(s
        .iter()
        .map(|a| match a {
            Ans::Frac(k, r) => format!("{}/{}", k, r),
            Ans::Raw(x) => format!("raw:{:#x}", x),
        })
        .collect::<Vec<_>>())
}

/// exact part (a)/(d): all index scripts for limit-only batches of size n
fn exact_small<const A: usize>(acc: &Acc, multi: bool, n: usize, out_summary: &mut Vec<serde_json::Value>) -> bool {
    exact_small_in::<A>(acc, DEFAULT_SETUP, multi, n, out_summary)
}

fn exact_small_in<const A: usize>(acc: &Acc, su: Setup, multi: bool, n: usize, out_summary: &mut Vec<serde_json::Value>) -> bool {
    let scripts = all_index_scripts(n);
    let items: Vec<Item> = (0..n).map(|i| Item { kind: Kind::Limit, asset: i % A }).collect();
    let mut perms: BTreeSet<Vec<usize>> = BTreeSet::new();
    let mut equals_library = true;
    let mut draws_set: BTreeSet<u64> = BTreeSet::new();
    for s in &scripts {
        acc.execs.fetch_add(2, Ordering::Relaxed);
        let r1 = util::subject(|| run_batch_in::<A>(su, multi, &items, s, 1)).unwrap_or_else(Err);
        let r2 = util::subject(|| run_batch_in::<A>(su, multi, &items, s, 1)).unwrap_or_else(Err);
        match (&r1, &r2) {
            (Ok(a), Ok(b)) => {
                if a != b {
                    acc.fail(
                        "same-generator-different-order",
                        format!("the same scripted generator gave processing order {:?} and then {:?}", a.0, b.0),
                        json!({"n": n, "multi": multi, "script": script_json(s), "setup": setup_json(&su)}),
                    );
                }
                let (lib, lib_draws) = rand_shuffle_order(n, s, 1);
                if a.0 != lib || a.1 != lib_draws {
                    equals_library = false;
                }
                perms.insert(a.0.clone());
                draws_set.insert(a.1);
            }
            (Err(e), _) | (_, Err(e)) => {
                acc.fail(
                    "invalid-processing-positions",
                    e.clone(),
                    json!({"n": n, "multi": multi, "script": script_json(s), "setup": setup_json(&su)}),
                );
                return false;
            }
        }
    }
    let bijection = perms.len() as u128 == fact(n) && scripts.len() as u128 == fact(n) && draws_set.len() == 1;
    out_summary.push(json!({
        "n": n, "multi_asset": multi, "assets": A, "scripts": scripts.len(), "distinct_processing_orders": perms.len(),
        "n_factorial": fact(n).to_string(), "draws_per_step": draws_set.iter().collect::<Vec<_>>(),
        "identical_to_library_shuffle": equals_library, "bijection_onto_Sn": bijection, "setup": setup_json(&su),
    }));
    if su != DEFAULT_SETUP && !(equals_library && bijection) {
        acc.fail(
            "order-depends-on-environment-configuration",
            format!("with {:?} the {} index scripts for a batch of {} give {} distinct processing orders (identical to the library shuffle: {})", su, scripts.len(), n, perms.len(), equals_library),
            json!({"n": n, "multi": multi, "setup": setup_json(&su)}),
        );
    }
    equals_library || bijection
}

/// degraded mode: algorithm-agnostic necessary conditions for batch size n
fn degraded<const A: usize>(acc: &Acc, multi: bool, n: usize, notes: &mut Vec<serde_json::Value>) {
    let items: Vec<Item> = (0..n).map(|i| Item { kind: Kind::Limit, asset: i % A }).collect();
    let mut max_bits = 0u64;
    let mut bit_counts: BTreeSet<u64> = BTreeSet::new();
    let mut reached: BTreeSet<Vec<usize>> = BTreeSet::new();
    let mut probes: Vec<Vec<Ans>> = all_index_scripts(n.min(5));
    for x in [0u64, u64::MAX, u64::MAX - 1, 1, 1 << 63, (1 << 32) - 1, 1 << 32] {
        probes.push(vec![Ans::Raw(x); 2 * n]);
    }
    for r in 2..=n as u64 {
        for k in [1u64, r - 1] {
            for d in [0i64, -1, 1] {
                let v32 = (((k as u128) << 32) / r as u128) as i64 + d;
                let v64 = (((k as u128) << 64) / r as u128) as u64;
                probes.push(vec![Ans::Raw(v32 as u64); 2 * n]);
                probes.push(vec![Ans::Raw(v64.wrapping_add(d as u64)); 2 * n]);
            }
        }
    }
    let n_designed = probes.len();
    for seed in 0..2000u64 {
        probes.push(vec![]);
        let _ = seed;
    }
    for (i, s) in probes.iter().enumerate() {
        acc.execs.fetch_add(1, Ordering::Relaxed);
        let seed = 1000 + i as u64;
        match util::subject(|| run_batch::<A>(multi, &items, s, seed)).unwrap_or_else(Err) {
            Ok((order, _, bits)) => {
                max_bits = max_bits.max(bits);
                bit_counts.insert(bits);
                reached.insert(order);
            }
            Err(e) => {
                acc.fail("invalid-processing-positions", e, json!({"n": n, "multi": multi, "script": script_json(s), "seed": seed}));
                return;
            }
        }
    }
    let need = log2_fact(n);
    notes.push(json!({
        "n": n, "multi_asset": multi, "mode": "degraded (shuffle is not a product of independent bounded draws in the calibrated form)",
        "decided_exactly": false, "probe_streams": probes.len(), "designed_probes": n_designed, "max_generator_bits_consumed": max_bits,
        "distinct_bit_counts": bit_counts.len(), "log2_n_factorial": need, "distinct_orders_reached": reached.len(),
    }));
    if (max_bits as f64) < need {
        acc.fail(
            "too-few-random-bits-for-uniformity",
            format!(
                "a step over {} instructions never consumed more than {} generator bits under {} probe streams (including the extremes), but log2({}!) = {:.1}: at most 2^{} of the {}! processing orders can occur, so the order is not uniformly distributed",
                n, max_bits, probes.len(), n, need, max_bits, n
            ),
            json!({"n": n, "multi": multi, "max_bits": max_bits}),
        );
    }
    if n <= 4 && (reached.len() as u128) < fact(n) {
        notes.push(json!({"n": n, "warning": "not every processing order was reached by the probe streams (necessary condition; search, not proof)", "reached": reached.len()}));
    }
}

/// (b) large batches, deviation-bounded scripts, judged against the library shuffle
fn large<const A: usize>(acc: &Acc, multi: bool, n: usize, max_dev: usize, summary: &mut Vec<serde_json::Value>) {
    let items: Vec<Item> = (0..n).map(|i| Item { kind: Kind::Limit, asset: i % A }).collect();
    let ranges: Vec<u64> = (2..=n as u64).rev().collect();
    // enumerate scripts with <= max_dev non-zero answers
    let mut scripts: Vec<Vec<Ans>> = Vec::new();
    let zero: Vec<Ans> = ranges.iter().map(|r| Ans::Frac(0, *r)).collect();
    scripts.push(zero.clone());
    for (j, r) in ranges.iter().enumerate() {
        for k in 1..*r {
            let mut s = zero.clone();
            s[j] = Ans::Frac(k, *r);
            scripts.push(s);
        }
    }
    if max_dev >= 2 {
        for j in 0..ranges.len() {
            for j2 in (j + 1)..ranges.len() {
                for k in 1..ranges[j] {
                    for k2 in 1..ranges[j2] {
                        let mut s = zero.clone();
                        s[j] = Ans::Frac(k, ranges[j]);
                        s[j2] = Ans::Frac(k2, ranges[j2]);
                        scripts.push(s);
                    }
                }
            }
        }
    }
    let next = AtomicU64::new(0);
    let perms: Mutex<BTreeSet<Vec<usize>>> = Mutex::new(BTreeSet::new());
    let pivot_items: Mutex<BTreeSet<usize>> = Mutex::new(BTreeSet::new());
    let lib_equal = std::sync::atomic::AtomicBool::new(true);
    std::thread::scope(|sc| {
        for _ in 0..util::n_threads() {
            sc.spawn(|| {
                let mut local: Vec<Vec<usize>> = Vec::new();
                loop {
                    let i = next.fetch_add(1, Ordering::Relaxed) as usize;
                    if i >= scripts.len() {
                        break;
                    }
                    let s = &scripts[i];
                    acc.execs.fetch_add(1, Ordering::Relaxed);
                    match util::subject(|| run_batch::<A>(multi, &items, s, 1)).unwrap_or_else(Err) {
                        Ok((order, draws, _)) => {
                            let (lib, lib_draws) = rand_shuffle_order(n, s, 1);
                            if order != lib || draws != lib_draws {
                                lib_equal.store(false, Ordering::Relaxed);
                            }
                            // the first draw alone decides which item lands on the pivot (last) position
                            if s.iter().skip(1).all(|a| matches!(a, Ans::Frac(0, _))) {
                                pivot_items.lock().unwrap().insert(order[n - 1]);
                            }
                            local.push(order);
                        }
                        Err(e) => acc.fail("invalid-processing-positions", e, json!({"n": n, "multi": multi, "script": script_json(s)})),
                    }
                }
                perms.lock().unwrap().extend(local);
            });
        }
    });
    let distinct = perms.lock().unwrap().len();
    let pivots = pivot_items.lock().unwrap().len();
    let le = lib_equal.load(Ordering::Relaxed);
    summary.push(json!({
        "n": n, "multi_asset": multi, "max_non_zero_answers": max_dev, "scripts": scripts.len(), "distinct_processing_orders": distinct,
        "items_reaching_pivot_position_by_first_draw": pivots, "identical_to_library_shuffle": le,
    }));
    if !le {
        // not the library shuffle of the submission order: fall back to necessary conditions
        let mut notes = Vec::new();
        degraded::<A>(acc, multi, n, &mut notes);
        summary.extend(notes);
    } else if distinct != scripts.len() || pivots != n {
        acc.fail(
            "large-batch-scripts-collide",
            format!("n={}: {} scripts gave {} distinct orders; {} of {} items reach the pivot position", n, scripts.len(), distinct, pivots, n),
            json!({"n": n, "multi": multi}),
        );
    }
}

/// (c) the position permutation depends on the script only: not on kinds, assets, submission order
fn content_independence<const A: usize>(acc: &Acc, multi: bool, n: usize, summary: &mut Vec<serde_json::Value>) {
    content_independence_in::<A>(acc, DEFAULT_SETUP, multi, n, summary)
}

fn content_independence_in<const A: usize>(acc: &Acc, su: Setup, multi: bool, n: usize, summary: &mut Vec<serde_json::Value>) {
    // (a re-pricing modify is observed through the trade it causes: only with trading on)
    let kinds: Vec<Kind> = if su.trading == 0 || su.trading == 3 || su.trading == 4 { vec![Kind::Limit, Kind::Market, Kind::Cancel, Kind::Modify, Kind::CancelNew, Kind::ModifyNew, Kind::CancelDead] } else { vec![Kind::Limit, Kind::Market, Kind::Cancel, Kind::CancelNew, Kind::CancelDead] };
    let mut words: Vec<Vec<Item>> = vec![vec![]];
    for _ in 0..n {
        let mut next = Vec::new();
        for w in &words {
            for &k in &kinds {
                for a in 0..A {
                    let mut w2 = w.clone();
                    w2.push(Item { kind: k, asset: a });
                    next.push(w2);
                }
            }
        }
        words = next;
    }
    // instructions aimed at an order of the same batch: at most one per batch (its position is
    // inferred when it was a no-op), and only behind a limit order it can aim at
    words.retain(|w| {
        let same: Vec<usize> = (0..w.len()).filter(|&i| matches!(w[i].kind, Kind::CancelNew | Kind::ModifyNew)).collect();
        let dead = w.iter().filter(|x| x.kind == Kind::CancelDead).count();
        same.len() + dead <= 1 && same.iter().all(|&i| w[..i].iter().any(|x| x.kind == Kind::Limit))
    });
    let scripts = all_index_scripts(n);
    // reference: limit-only batch on asset 0
    let base: Vec<Item> = (0..n).map(|_| Item { kind: Kind::Limit, asset: 0 }).collect();
    let mut expected: Vec<(Vec<usize>, u64)> = Vec::new();
    for s in &scripts {
        match util::subject(|| run_batch_in::<A>(DEFAULT_SETUP, multi, &base, s, 1)).unwrap_or_else(Err) {
            Ok((o, d, _)) => expected.push((o, d)),
            Err(e) => {
                acc.fail("invalid-processing-positions", e, json!({"n": n, "multi": multi, "script": script_json(s)}));
                return;
            }
        }
    }
    let next = AtomicU64::new(0);
    std::thread::scope(|sc| {
        for _ in 0..util::n_threads() {
            sc.spawn(|| loop {
                let i = next.fetch_add(1, Ordering::Relaxed) as usize;
                if i >= words.len() {
                    break;
                }
                let w = &words[i];
                for (si, s) in scripts.iter().enumerate() {
                    acc.execs.fetch_add(1, Ordering::Relaxed);
                    match util::subject(|| run_batch_in::<A>(su, multi, w, s, 1)).unwrap_or_else(Err) {
                        Ok((o, d, _)) => {
                            if o != expected[si].0 {
                                let assets_differ = w.iter().any(|it| it.asset != 0);
                                acc.fail(
                                    if assets_differ { "order-depends-on-instruction-content/asset" } else { "order-depends-on-instruction-content/kind" },
                                    format!(
                                        "with the same generator answers a batch {:?} is processed in order {:?} but {} plain limit orders in order {:?}",
                                        w, o, n, expected[si].0
                                    ),
                                    json!({"n": n, "multi": multi, "batch": format!("{:?}", w), "script": script_json(s)}),
                                );
                            }
                            if d != expected[si].1 {
                                acc.fail(
                                    "draws-depend-on-instruction-content",
                                    format!("batch {:?} consumed {} draws, a plain batch of the same size {}", w, d, expected[si].1),
                                    json!({"n": n, "multi": multi, "batch": format!("{:?}", w), "script": script_json(s)}),
                                );
                            }
                        }
                        Err(e) => acc.fail("invalid-processing-positions", e, json!({"n": n, "multi": multi, "batch": format!("{:?}", w), "script": script_json(s)})),
                    }
                }
            });
        }
    });
    summary.push(json!({"n": n, "multi_asset": multi, "assets": A, "batch_contents": words.len(), "scripts_each": scripts.len(), "setup": setup_json(&su)}));
}

pub fn c15(tier: &str) -> i32 {
    let mut out = Outcome::new("C15", tier, "model_checking");
    let t = crate::bookprops::thorough(tier);
    let acc = Acc { execs: AtomicU64::new(0), fails: Mutex::new(BTreeMap::new()) };
    let mut small = Vec::new();
    let mut notes = Vec::new();
    let nmax = if t { 8 } else { 7 };
    let mut exact_all = true;
    for n in 2..=nmax {
        if !exact_small::<1>(&acc, false, n, &mut small) {
            exact_all = false;
            degraded::<1>(&acc, false, n, &mut notes);
        }
        if n <= nmax - 1 {
            if !exact_small::<2>(&acc, true, n, &mut small) {
                exact_all = false;
                degraded::<2>(&acc, true, n, &mut notes);
            }
        }
    }
    let mut big = Vec::new();
    let plan: Vec<(usize, usize)> = if t {
        vec![(8, 2), (12, 2), (16, 2), (21, 2), (24, 2), (32, 2), (48, 2), (64, 2)]
    } else {
        vec![(8, 2), (12, 2), (16, 2), (21, 2), (32, 2), (48, 1), (64, 1)]
    };
    for (n, dev) in plan {
        large::<1>(&acc, false, n, dev, &mut big);
    }
    large::<3>(&acc, true, if t { 24 } else { 12 }, 1, &mut big);
    let mut content = Vec::new();
    for n in 2..=(if t { 5 } else { 4 }) {
        content_independence::<1>(&acc, false, n, &mut content);
    }
    content_independence::<2>(&acc, true, 3, &mut content);
    content_independence::<3>(&acc, true, if t { 4 } else { 3 }, &mut content);
    content_independence::<2>(&acc, true, 4, &mut content);
    // the same decision under other environment configurations: batches larger than the step
    // size (stamps still start+i), trading off from construction, trading switched off later
    let mut setups = Vec::new();
    for n in 2..=(if t { 6 } else { 5 }) {
        for su in [
            Setup { step_size: 1, trading: 0 },
            Setup { step_size: (n - 1) as u64, trading: 0 },
            Setup { step_size: n as u64, trading: 0 },
            Setup { step_size: 100_000, trading: 1 },
            Setup { step_size: 100_000, trading: 2 },
            Setup { step_size: 2, trading: 2 },
            Setup { step_size: 100_000, trading: 3 },
            Setup { step_size: 100_000, trading: 4 },
            Setup { step_size: 100_000, trading: 5 },
        ] {
            exact_small_in::<1>(&acc, su, false, n, &mut setups);
            exact_small_in::<2>(&acc, su, true, n, &mut setups);
        }
    }
    for su in [Setup { step_size: 2, trading: 0 }, Setup { step_size: 100_000, trading: 1 }, Setup { step_size: 100_000, trading: 2 }, Setup { step_size: 100_000, trading: 3 }, Setup { step_size: 100_000, trading: 4 }, Setup { step_size: 100_000, trading: 5 }] {
        content_independence_in::<1>(&acc, su, false, 3, &mut content);
        content_independence_in::<2>(&acc, su, true, 3, &mut content);
    }
    out.set("other_environment_configurations", json!(setups));
    // batches beyond 1024 / 2048 / 4096 instructions: a few complete generator streams each, the
    // processing order must be the library shuffle under that very stream
    let mut huge = Vec::new();
    for &n in (if t { &[1025usize, 2048, 4097, 9000][..] } else { &[1025usize, 2050, 4100][..] }) {
        let items: Vec<Item> = (0..n).map(|i| Item { kind: Kind::Limit, asset: i % 2 }).collect();
        for (multi, seed) in [(false, 1u64), (false, 2), (true, 3)] {
            acc.execs.fetch_add(1, Ordering::Relaxed);
            let script: Vec<Ans> = if seed == 2 { vec![Ans::Raw(0); 8] } else { vec![] };
            let r = if multi { util::subject(|| run_batch::<2>(true, &items, &script, seed)).unwrap_or_else(Err) } else {
                let items1: Vec<Item> = items.iter().map(|it| Item { kind: it.kind, asset: 0 }).collect();
                util::subject(|| run_batch::<1>(false, &items1, &script, seed)).unwrap_or_else(Err)
            };
            match r {
                Ok((order, draws, _)) => {
                    let (lib, lib_draws) = rand_shuffle_order(n, &script, seed);
                    if order != lib || draws != lib_draws {
                        let first = order.iter().zip(lib.iter()).position(|(a, b)| a != b).unwrap_or(0);
                        acc.fail(
                            "large-batch-not-the-library-shuffle",
                            format!("a batch of {} instructions: processing order differs from the library shuffle under the same generator stream from position {} on ({} draws vs {})", n, first, draws, lib_draws),
                            json!({"n": n, "multi": multi, "fallback_seed": seed, "script": script_json(&script)}),
                        );
                    }
                }
                Err(e) => acc.fail("invalid-processing-positions", e, json!({"n": n, "multi": multi, "fallback_seed": seed})),
            }
        }
        huge.push(json!({"n": n, "streams": 3}));
    }
    out.set("huge_batches_exact", json!(huge));
    let mut ms = Vec::new();
    multi_step::<1>(&acc, false, if t { 5 } else { 4 }, if t { 2500 } else { 1300 }, &mut ms);
    multi_step::<2>(&acc, true, if t { 5 } else { 4 }, if t { 2500 } else { 1300 }, &mut ms);
    out.set("consecutive_steps", json!(ms));
    let execs = acc.execs.load(Ordering::Relaxed);
    out.set("states", json!(execs));
    out.set("transitions", json!(execs));
    out.set("traces_validated_against_impl", json!(execs));
    out.set("exact_small_batches", json!(small));
    out.set("large_batches_deviation_bounded", json!(big));
    out.set("content_independence", json!(content));
    out.set("degraded_notes", json!(notes));
    out.set("decided_exactly", json!(exact_all));
    out.push("samples", json!({"batch": "4 fresh limit orders", "script": script_json(&all_index_scripts(4)[7]), "processing_order": rand_shuffle_order(4, &all_index_scripts(4)[7], 1).0}));
    for (sig, (detail, replay)) in acc.fails.into_inner().unwrap() {
        out.fail_other(&format!("shuffle/{}", sig), detail, replay);
    }
    out.assumptions = vec![
        "rand's bounded uniform draws (gen_range) are uniform and independent for a uniform generator: with that, a bijection from index scripts onto S_n (or identity with the library shuffle) gives every permutation probability exactly 1/n!".into(),
        "the property's own statistical test over >= 2*10^5 seeds is sampling and is replaced by this exact decision".into(),
    ];
    out.finish()
}
