//! C17: momentum agents trade symmetrically in rising and falling markets. The harness owns
//! the mid-price (it re-quotes a deep two-sided market between updates) and the generator.

use crate::agentsx::*;
use crate::report::Outcome;
use crate::scriptrng::{Ans, ScriptRng};
use crate::snap::*;
use crate::util;
use serde_json::json;
use std::collections::BTreeMap;
use std::sync::atomic::{AtomicU64, Ordering};

const CENTRE: i64 = 500;

#[derive(Clone, Debug)]
struct Params {
    /// mid-price level the paths start from, in ticks
    centre: i64,
    /// paths with moves of millions of ticks instead of one or two
    big_moves: bool,
    multi: bool,
    tick: u32,
    n: u16,
    decay: f64,
    scale: f64,
    demand: f64,
    ratio: f64,
    /// location of the agents' limit-price distribution (0: quotes next to the mid-price; 6: about
    /// 400 ticks behind it, where nothing ever fills them)
    mu: f64,
    /// the harness re-quotes by cancelling only its OWN quotes: the agents' limit orders stay
    mut_keep: bool,
    /// scale of the limit-price distribution (0: 1.0 next to the mid-price, 0.1 for mu = 6); 10 is the
    /// heavy-tailed setting of the project's documentation: sampled distances often reach past 0 / 2^32-1
    sigma: f64,
}

impl Params {
    fn cfg(&self) -> AgentCfg {
        AgentCfg::Momentum {
            start: 20,
            n: self.n,
            tick: self.tick,
            p_cancel: 0.0,
            vol: 5,
            decay: self.decay,
            demand: self.demand,
            scale: self.scale,
            ratio: self.ratio,
            mu: self.mu,
            sigma: if self.sigma > 0.0 { self.sigma } else if self.mu == 0.0 { 1.0 } else { 0.1 },
        }
    }
}

/// What the agent group submitted in one round: (trader, is_market, bid, price, vol), sorted
type Flow = Vec<(u32, bool, bool, u32, u32)>;

struct RunOut {
    mids: Vec<f64>,
    flows: Vec<Flow>,
}

fn f64_answer(x: f64) -> u64 {
    // gen::<f64>() = (word >> 11) * 2^-53
    let k = (x * (1u64 << 53) as f64).floor().max(0.0).min(((1u64 << 53) - 1) as f64) as u64;
    k << 11
}

/// Drive one world along `levels` (mid-price in ticks per round). `last_script` scripts the
/// generator of the last round's update; earlier rounds use the default stream.
fn drive(p: &Params, levels: &[i64], last_script: &[Ans], seed: u64) -> Result<RunOut, String> {
    util::subject(|| {
        let c = p.cfg();
        let mut w = World::new(p.multi, &c, StartBook::Empty, 500);
        let mut quotes: Vec<usize> = Vec::new();
        let mut out = RunOut { mids: vec![], flows: vec![] };
        for (r, &m) in levels.iter().enumerate() {
            // clean the book: cancel everything still resting (harness quotes and agent leftovers)
            let orders = w.orders();
            let mut any = false;
            for o in &orders {
                if o.status == ACTIVE && !(p.mut_keep && o.trader >= 20 && o.trader < 20 + p.n as u32) {
                    w.cancel_foreign(o.id);
                    any = true;
                }
            }
            if any {
                let mut r0 = ScriptRng::new(vec![], 11);
                w.step(&mut r0);
            }
            quotes.clear();
            // m is the mid-price level in half ticks: even -> spread of 2 ticks, odd -> spread of 3 ticks
            let (b, a) = if m % 2 == 0 { (m / 2 - 1, m / 2 + 1) } else { ((m - 3) / 2, (m + 3) / 2) };
            let bid = (b as u32) * p.tick;
            let ask = (a as u32) * p.tick;
            quotes.push(w.place_foreign(true, 1_000_000, Some(bid)));
            quotes.push(w.place_foreign(false, 1_000_000, Some(ask)));
            let mut r1 = ScriptRng::new(vec![], 12);
            w.step(&mut r1);
            // (what the agents should see, recomputed from the order list; w.mid() - the book's own
            // view - must agree with it)
            let mid = true_mid(&w);
            if (w.mid() - mid).abs() > 1e-9 {
                panic!("the book reports a mid-price of {} but its resting orders give {}", w.mid(), mid);
            }
            out.mids.push(mid);
            let before = w.orders().len();
            let script = if r + 1 == levels.len() { last_script.to_vec() } else { vec![] };
            let mut rng = ScriptRng::new(script, seed.wrapping_add(r as u64));
            rng.budget = 100_000;
            w.update(&mut rng);
            let after = w.orders();
            let mut flow: Flow = after[before..]
                .iter()
                .map(|o| {
                    let market = (o.bid && o.price == MAXP) || (!o.bid && o.price == 0);
                    (o.trader, market, o.bid, o.price, o.vol)
                })
                .collect();
            flow.sort();
            out.flows.push(flow);
            let mut r2 = ScriptRng::new(vec![], 13);
            w.step(&mut r2);
        }
        out
    })
}

/// Unusual but legal call patterns: the agents' `update` is not called exactly once per step. Pattern 1: twice in a
/// row (no step in between) in round `at`; pattern 2: not at all in round `at` (the market still moves and steps).
/// The documented recurrence is per `update` call: M = m(1-decay) + decay(P - p) with p the mid-price seen by the
/// previous call. Returns the mid-price seen and the orders submitted by every update call.
fn drive_pattern(p: &Params, levels: &[i64], pattern: u8, at: usize, seed: u64) -> Result<RunOut, String> {
    util::subject(|| {
        let c = p.cfg();
        let mut w = World::new(p.multi, &c, StartBook::Empty, 500);
        let mut out = RunOut { mids: vec![], flows: vec![] };
        for (r, &m) in levels.iter().enumerate() {
            let orders = w.orders();
            let mut any = false;
            for o in &orders {
                if o.status == ACTIVE {
                    w.cancel_foreign(o.id);
                    any = true;
                }
            }
            if any {
                let mut r0 = ScriptRng::new(vec![], 11);
                w.step(&mut r0);
            }
            let (b, a) = if m % 2 == 0 { (m / 2 - 1, m / 2 + 1) } else { ((m - 3) / 2, (m + 3) / 2) };
            w.place_foreign(true, 1_000_000, Some((b as u32) * p.tick));
            w.place_foreign(false, 1_000_000, Some((a as u32) * p.tick));
            let mut r1 = ScriptRng::new(vec![], 12);
            w.step(&mut r1);
            let calls = if r == at { if pattern == 1 { 2 } else { 0 } } else { 1 };
            for k in 0..calls {
                out.mids.push(true_mid(&w));
                let before = w.orders().len();
                let mut rng = ScriptRng::new(vec![], seed.wrapping_add(r as u64 * 7 + k as u64));
                rng.budget = 100_000;
                w.update(&mut rng);
                let after = w.orders();
                let mut flow: Flow = after[before..]
                    .iter()
                    .map(|o| {
                        let market = (o.bid && o.price == MAXP) || (!o.bid && o.price == 0);
                        (o.trader, market, o.bid, o.price, o.vol)
                    })
                    .collect();
                flow.sort();
                out.flows.push(flow);
            }
            let mut r2 = ScriptRng::new(vec![], 13);
            w.step(&mut r2);
        }
        out
    })
}

/// mid-price recomputed from the order list alone (not through the book's own views)
fn true_mid(w: &World) -> f64 {
    let o = w.orders();
    let bid = o.iter().filter(|x| x.status == ACTIVE && x.bid).map(|x| x.price).max();
    let ask = o.iter().filter(|x| x.status == ACTIVE && !x.bid).map(|x| x.price).min();
    (bid.unwrap_or(0) as f64 + ask.unwrap_or(MAXP) as f64) / 2.0
}

/// Another way of imposing the path: two layers of quotes per side (touch and one tick behind)
/// that are RE-QUOTED WITHIN ONE STEP - cancel both old bids and place both new ones as one
/// shuffled batch of four, processed in the order selected by `perm` (one of the 24 index
/// scripts), then the same for the asks - instead of emptying the book first. The agents see a
/// book whose touch moved through cancellations and worse-priced arrivals in every possible order.
fn drive_requote(p: &Params, levels: &[i64], perm: usize, seed: u64) -> Result<RunOut, String> {
    util::subject(|| {
        let c = p.cfg();
        let mut w = World::new(p.multi, &c, StartBook::Empty, 500);
        let scripts = crate::scriptrng::all_index_scripts(4);
        let script = scripts[perm % scripts.len()].clone();
        let mut out = RunOut { mids: vec![], flows: vec![] };
        // (inner, outer) quote ids per side
        let mut qb: Option<(usize, usize)> = None;
        let mut qa: Option<(usize, usize)> = None;
        for (r, &m) in levels.iter().enumerate() {
            // agent leftovers go first, in a step of their own
            let mine: Vec<usize> = [qb, qa].iter().flatten().flat_map(|(a, b)| [*a, *b]).collect();
            let mut any = false;
            for o in w.orders() {
                if o.status == ACTIVE && !mine.contains(&o.id) {
                    w.cancel_foreign(o.id);
                    any = true;
                }
            }
            if any {
                let mut r0 = ScriptRng::new(vec![], 11);
                w.step(&mut r0);
            }
            let (b, a) = ((m / 2 - 1) as u32 * p.tick, (m / 2 + 1) as u32 * p.tick);
            // each side: cancel both old quotes and place both new ones in ONE shuffled batch; the
            // side that moves AWAY from the other goes first, so that the new quotes never cross
            let rising = r > 0 && m > levels[r - 1];
            for bid_side in if rising { [false, true] } else { [true, false] } {
                if bid_side {
                    if let Some((i, o)) = qb {
                        w.cancel_foreign(i);
                        w.cancel_foreign(o);
                    }
                    let nb = (w.place_foreign(true, 1_000_000, Some(b)), w.place_foreign(true, 1_000_000, Some(b - p.tick)));
                    let mut r1 = ScriptRng::new(if qb.is_some() { script.clone() } else { vec![] }, 12);
                    w.step(&mut r1);
                    qb = Some(nb);
                } else {
                    if let Some((i, o)) = qa {
                        w.cancel_foreign(i);
                        w.cancel_foreign(o);
                    }
                    let na = (w.place_foreign(false, 1_000_000, Some(a)), w.place_foreign(false, 1_000_000, Some(a + p.tick)));
                    let mut r2 = ScriptRng::new(if qa.is_some() { script.clone() } else { vec![] }, 13);
                    w.step(&mut r2);
                    qa = Some(na);
                }
            }
            out.mids.push(true_mid(&w));
            let before = w.orders().len();
            let mut rng = ScriptRng::new(vec![], seed.wrapping_add(r as u64));
            rng.budget = 100_000;
            w.update(&mut rng);
            let after = w.orders();
            let mut flow: Flow = after[before..]
                .iter()
                .map(|o| {
                    let market = (o.bid && o.price == MAXP) || (!o.bid && o.price == 0);
                    (o.trader, market, o.bid, o.price, o.vol)
                })
                .collect();
            flow.sort();
            out.flows.push(flow);
            let mut r3 = ScriptRng::new(vec![], 14);
            w.step(&mut r3);
        }
        out
    })
}

fn momentum_series(p: &Params, mids: &[f64]) -> Vec<f64> {
    let mut m = 0.0;
    let mut out = Vec::new();
    for (i, &x) in mids.iter().enumerate() {
        if i == 0 {
            out.push(0.0);
            continue;
        }
        m = m * (1.0 - p.decay) + p.decay * (x - mids[i - 1]);
        out.push(m);
    }
    out
}

fn judge_flow(p: &Params, round: usize, m: f64, flow: &Flow, last: Option<&[f64]>) -> Result<(), (String, String)> {
    let bad = |c: &str, d: String| Err((c.to_string(), d));
    let prob = (p.demand * (p.scale * m).tanh()).abs() / p.n as f64;
    let traders: Vec<u32> = (20..20 + p.n as u32).collect();
    if m == 0.0 && !flow.is_empty() {
        return bad("orders-with-zero-momentum", format!("round {}: M = 0 but the agents submitted {:?}", round, flow));
    }
    for (t, market, bid, _price, vol) in flow {
        if !traders.contains(t) {
            return bad("foreign-trader", format!("{:?}", flow));
        }
        if *bid != (m > 0.0) {
            return bad(
                if m > 0.0 { "sell-in-rising-market" } else { "buy-in-falling-market" },
                format!("round {}: M = {} but trader {} submitted a {} ({})", round, m, t, if *bid { "buy" } else { "sell" }, if *market { "market" } else { "limit" }),
            );
        }
        if *vol != 5 {
            return bad("volume", format!("{:?}", flow));
        }
    }
    for t in &traders {
        let nm = flow.iter().filter(|f| f.0 == *t && f.1).count();
        let nl = flow.iter().filter(|f| f.0 == *t && !f.1).count();
        if nm > 1 || nl > 1 {
            return bad("more-than-one-order-per-trader", format!("round {} trader {}: {:?}", round, t, flow));
        }
        if m != 0.0 && prob >= 1.0 && nm != 1 {
            return bad(
                if m > 0.0 { "no-buy-at-saturated-demand" } else { "no-sell-at-saturated-demand" },
                format!("round {}: M = {}, |demand*tanh(scale*M)|/n = {} >= 1 but trader {} submitted {} market orders", round, m, prob, t, nm),
            );
        }
        if m != 0.0 && prob * p.ratio >= 1.0 && nl != 1 {
            return bad(
                if m > 0.0 { "no-limit-buy-at-saturated-demand" } else { "no-limit-sell-at-saturated-demand" },
                format!("round {}: M = {}, ratio*p = {} >= 1 but trader {} submitted {} limit orders", round, m, prob * p.ratio, t, nl),
            );
        }
        if p.ratio == 0.0 && nl != 0 {
            return bad("limit-order-with-ratio-zero", format!("round {}: {:?}", round, flow));
        }
    }
    // last round with a fully scripted market decision per trader (ratio 0: draws 2i, 2i+1)
    if let Some(xs) = last {
        if p.ratio == 0.0 && m != 0.0 {
            for (i, t) in traders.iter().enumerate() {
                let acted = flow.iter().any(|f| f.0 == *t && f.1);
                let want = xs[i] < prob;
                if acted != want {
                    return bad(
                        if want { "no-action-below-threshold" } else { "action-above-threshold" },
                        format!(
                            "round {}: M = {}, p = {}: trader {} drew {} and {} a market order",
                            round, m, prob, t, xs[i], if acted { "submitted" } else { "did not submit" }
                        ),
                    );
                }
            }
        }
    }
    Ok(())
}

fn rounds_ctr_add(c: &AtomicU64, n: u64) {
    c.fetch_add(n, Ordering::Relaxed);
}

fn mirror(p: &Params, f: &Flow) -> Flow {
    let mut out: Flow = f
        .iter()
        .map(|(t, market, bid, price, vol)| {
            let np = if *market {
                if *bid {
                    0
                } else {
                    MAXP
                }
            } else if p.sigma >= 5.0 {
                // heavy-tailed limit prices are clamped at the ends of the axis, which are not mirror
                // images of each other (0 and 2^32-1): the statement mirrors side, size and step
                0
            } else {
                (2 * p.centre as u32 * p.tick) - *price
            };
            (*t, *market, !*bid, np, *vol)
        })
        .collect();
    out.sort();
    out
}

/// the flow as far as the mirror comparison looks at it (limit prices dropped for heavy-tailed settings)
fn comparable(p: &Params, f: &Flow) -> Flow {
    let mut out: Flow = f.iter().map(|(t, market, bid, price, vol)| (*t, *market, *bid, if !*market && p.sigma >= 5.0 { 0 } else { *price }, *vol)).collect();
    out.sort();
    out
}

pub fn c17(tier: &str) -> i32 {
    let mut out = Outcome::new("C17", tier, "model_checking");
    let t = crate::bookprops::thorough(tier);
    let max_len = if t { 5 } else { 3 };
    // all paths of moves in {-2..2} ticks (in half ticks), as offsets from the starting level; and a
    // second family with moves of millions of ticks
    let gen = |moves: &[i64], max_len: usize| -> Vec<Vec<i64>> {
        let mut paths: Vec<Vec<i64>> = vec![vec![0]];
        let mut all: Vec<Vec<i64>> = Vec::new();
        for _ in 0..max_len {
            let mut next = Vec::new();
            for pth in &paths {
                for mv in moves {
                    let mut q = pth.clone();
                    q.push(pth[pth.len() - 1] + mv);
                    next.push(q);
                }
            }
            all.extend(next.iter().cloned());
            paths = next;
        }
        all
    };
    let small_paths = gen(&[-4, -2, -1, 0, 1, 2, 4], max_len);
    let big_paths = gen(&[-6_000_000, -2_400_000, 0, 2_400_000, 6_000_000], if t { 4 } else { 3 });
    let mut params: Vec<Params> = Vec::new();
    for multi in [false, true] {
        for tick in [1u32, 2] {
            for n in 1..=3u16 {
                for decay in [1.0, 0.5] {
                    for scale in [0.5, 10.0] {
                        for (demand, ratio) in [(100.0, 0.0), (100.0, 1.0), (0.6 * n as f64, 0.0), (0.6 * n as f64, 1.0), (100.0, 0.5), (5.0 * n as f64, 0.5)] {
                            if !t && (multi && tick == 2 && n == 2) {
                                continue;
                            }
                            params.push(Params { centre: CENTRE, big_moves: false, multi, tick, n, decay, scale, demand, ratio, mu: 0.0, mut_keep: false, sigma: 0.0 });
                        }
                    }
                }
            }
        }
    }
    // signs of the parameters: the documented probability is |demand*tanh(scale*M)|/n and the side
    // follows the sign of M alone, for every demand/scale setting - also negative ones
    // (decay beyond 1 and below 0 too: the recurrence is documented for every setting)
    for multi in [false, true] {
        for n in 1..=2u16 {
            for decay in [1.5, -0.5] {
                for ratio in [0.0, 1.0] {
                    params.push(Params { centre: CENTRE, big_moves: false, multi, tick: 1, n, decay, scale: 0.5, demand: 100.0, ratio, mu: 0.0, mut_keep: false, sigma: 0.0 });
                }
            }
        }
    }
    for multi in [false, true] {
        for n in 1..=2u16 {
            for decay in [1.0, 0.5] {
                for (demand, scale) in [(-100.0, 0.5), (100.0, -0.5), (-100.0, -0.5), (-0.6 * n as f64, 10.0)] {
                    for ratio in [0.0, 1.0] {
                        params.push(Params { centre: CENTRE, big_moves: false, multi, tick: 1, n, decay, scale, demand, ratio, mu: 0.0, mut_keep: false, sigma: 0.0 });
                    }
                }
            }
        }
    }
    // the documentation's heavy-tailed limit-price distribution (sigma 10): sampled prices reach past both
    // ends of the price axis; a saturated group still places one limit order per trader
    for multi in [false, true] {
        for tick in [1u32, 2] {
            for n in [1u16, 3] {
                for (demand, ratio) in [(100.0, 1.0), (100.0, 0.5), (100.0, 2.0)] {
                    params.push(Params { centre: CENTRE, big_moves: false, multi, tick, n, decay: 1.0, scale: 0.5, demand, ratio, mu: 0.0, mut_keep: false, sigma: 10.0 });
                }
            }
        }
    }
    // mid-prices beyond 2^24 (where a 32-bit float no longer holds a half tick) with small and with huge moves
    for multi in [false, true] {
        for n in 1..=2u16 {
            for decay in [1.0, 0.5] {
                for (demand, ratio) in [(100.0, 0.0), (100.0, 1.0)] {
                    for big_moves in [false, true] {
                        params.push(Params { centre: 20_000_011, big_moves, multi, tick: 1, n, decay, scale: 0.5, demand, ratio, mu: 0.0, mut_keep: false, sigma: 0.0 });
                    }
                }
            }
        }
    }
    let execs = AtomicU64::new(0);
    let rounds = AtomicU64::new(0);
    let buys = AtomicU64::new(0);
    let sells = AtomicU64::new(0);
    let fails: std::sync::Mutex<BTreeMap<String, (String, serde_json::Value)>> = Default::default();
    let next = AtomicU64::new(0);
    let jobs: Vec<(usize, usize)> = (0..params.len())
        .flat_map(|pi| {
            let np = if params[pi].big_moves { big_paths.len() } else if params[pi].centre != CENTRE { small_paths.len().min(400) } else { small_paths.len() };
            (0..np).map(move |qi| (pi, qi))
        })
        .collect();
    std::thread::scope(|sc| {
        for _ in 0..util::n_threads() {
            sc.spawn(|| loop {
                let i = next.fetch_add(1, Ordering::Relaxed) as usize;
                if i >= jobs.len() {
                    break;
                }
                let (pi, qi) = jobs[i];
                let p = &params[pi];
                let offs = if p.big_moves { &big_paths[qi] } else { &small_paths[qi] };
                let levels: Vec<i64> = offs.iter().map(|o| 2 * p.centre + o).collect();
                let levels = &levels;
                let mirrored: Vec<i64> = offs.iter().map(|o| 2 * p.centre - o).collect();
                // scripts for the last round
                let mut scripts: Vec<(Vec<Ans>, Option<Vec<f64>>)> = vec![
                    (vec![], None),
                    (vec![Ans::Raw(0); 12], None),
                    (vec![Ans::Raw(u64::MAX); 12], None),
                    (vec![Ans::Raw(0x7FFF_FFFF_FFFF_FFFF); 12], None),
                    // every normal draw lands in its far positive tail (limit prices past the ends of the axis)
                    (vec![Ans::Raw(0xFFFF_FFFF_FFFF_FF00); 12], None),
                ];
                if p.ratio == 0.0 {
                    // every combination of {0, just below p, just above p, 1-eps} per trader, for the p of this path
                    let mids: Vec<f64> = levels.iter().map(|m| (*m as f64) / 2.0 * p.tick as f64).collect();
                    let ms = momentum_series(p, &mids);
                    let m_last = ms[ms.len() - 1];
                    let prob = (p.demand * (p.scale * m_last).tanh()).abs() / p.n as f64;
                    let cands = [0.0, (prob - 1e-9).max(0.0), (prob + 1e-9).min(1.0 - 1e-12), 1.0 - 1e-12];
                    let n = p.n as usize;
                    let combos = 4usize.pow(n as u32);
                    for cidx in 0..combos {
                        let mut xs = Vec::new();
                        let mut s = Vec::new();
                        let mut k = cidx;
                        for _ in 0..n {
                            let x = cands[k % 4];
                            k /= 4;
                            // actual value the generator will produce for this answer
                            let word = f64_answer(x);
                            let actual = (word >> 11) as f64 / (1u64 << 53) as f64;
                            xs.push(actual);
                            s.push(Ans::Raw(0));
                            s.push(Ans::Raw(word));
                        }
                        scripts.push((s, Some(xs)));
                    }
                }
                for (script, xs) in &scripts {
                    execs.fetch_add(2, Ordering::Relaxed);
                    let replay = || json!({"engine": "c17", "params": format!("{:?}", p), "mid_levels_in_half_ticks": levels, "last_round_script": format!("{:?}", script)});
                    let a = drive(p, levels, script, 3);
                    let b = drive(p, &mirrored, script, 3);
                    let (a, b) = match (a, b) {
                        (Ok(a), Ok(b)) => (a, b),
                        (Err(m), _) | (_, Err(m)) => {
                            fails.lock().unwrap().entry(format!("momentum/abort/{}", util::panic_sig(&m))).or_insert((m, replay()));
                            continue;
                        }
                    };
                    rounds.fetch_add(2 * levels.len() as u64, Ordering::Relaxed);
                    let ms = momentum_series(p, &a.mids);
                    let ms_b = momentum_series(p, &b.mids);
                    for r in 0..levels.len() {
                        let last = if r + 1 == levels.len() { xs.as_deref() } else { None };
                        for (m, f) in [(ms[r], &a.flows[r]), (ms_b[r], &b.flows[r])] {
                            buys.fetch_add(f.iter().filter(|x| x.2).count() as u64, Ordering::Relaxed);
                            sells.fetch_add(f.iter().filter(|x| !x.2).count() as u64, Ordering::Relaxed);
                            if let Err((c, d)) = judge_flow(p, r, m, f, last) {
                                fails.lock().unwrap().entry(format!("momentum/{}", c)).or_insert((d, replay()));
                            }
                        }
                        // mirror differential (only meaningful while both mid paths really are mirrored)
                        let mirrored_ok = (0..=r).all(|j| (a.mids[j] + b.mids[j] - 2.0 * (p.centre as f64) * p.tick as f64).abs() < 1e-9);
                        if mirrored_ok && mirror(p, &a.flows[r]) != comparable(p, &b.flows[r]) {
                            fails.lock().unwrap().entry("momentum/mirrored-path-not-mirrored-flow".to_string()).or_insert((
                                format!(
                                    "round {}: on the path {:?} the agents submitted {:?}; on the mirrored path {:?} they submitted {:?} (expected the mirror image {:?})",
                                    r, a.mids, a.flows[r], b.mids, b.flows[r], mirror(p, &a.flows[r])
                                ),
                                replay(),
                            ));
                        }
                    }
                }
            });
        }
    });
    // long trends: 40 rounds of a steadily rising / falling / alternating mid-price at saturated
    // demand, the agents' own limit orders resting far behind the touch and never cancelled (the
    // harness re-quotes by cancelling only its own orders): the flow of round 30 must follow the
    // same rule as the flow of round 3, whatever has accumulated in between
    let mut long_runs = 0u64;
    for multi in [false, true] {
        for n in [1u16, 2] {
            for (pname, step) in [("rising", 2i64), ("falling", -2), ("rising by half ticks", 1)] {
                let p = Params { centre: 5000, big_moves: false, multi, tick: 1, n, decay: 1.0, scale: 0.5, demand: 100.0, ratio: 1.0, mu: 6.0, mut_keep: true, sigma: 0.0 };
                let n_rounds: i64 = if t { 80 } else { 40 };
                let levels: Vec<i64> = (0..n_rounds).map(|k| 2 * p.centre + step * k).collect();
                let mirrored: Vec<i64> = (0..n_rounds).map(|k| 2 * p.centre - step * k).collect();
                long_runs += 2;
                execs.fetch_add(2, Ordering::Relaxed);
                let replay = json!({"engine": "c17", "scenario": "long trend", "params": format!("{:?}", p), "path": pname, "rounds": n_rounds});
                match (drive(&p, &levels, &[], 3), drive(&p, &mirrored, &[], 3)) {
                    (Ok(a), Ok(b)) => {
                        rounds_ctr_add(&rounds, 2 * levels.len() as u64);
                        let (ms, ms_b) = (momentum_series(&p, &a.mids), momentum_series(&p, &b.mids));
                        for r in 0..levels.len() {
                            for (m, f) in [(ms[r], &a.flows[r]), (ms_b[r], &b.flows[r])] {
                                if let Err((c, d)) = judge_flow(&p, r, m, f, None) {
                                    fails.lock().unwrap().entry(format!("momentum/{}", c)).or_insert((format!("long trend ({}), {}", pname, d), replay.clone()));
                                }
                            }
                            if mirror(&p, &a.flows[r]) != comparable(&p, &b.flows[r]) {
                                fails.lock().unwrap().entry("momentum/mirrored-path-not-mirrored-flow".to_string()).or_insert((
                                    format!("long trend ({}), round {}: flow {:?}, on the mirrored path {:?}", pname, r, a.flows[r], b.flows[r]),
                                    replay.clone(),
                                ));
                            }
                        }
                    }
                    (Err(m), _) | (_, Err(m)) => {
                        fails.lock().unwrap().entry(format!("momentum/abort/{}", util::panic_sig(&m))).or_insert((m, replay));
                    }
                }
            }
        }
    }
    // the path imposed by re-quoting two layers within one shuffled step, every processing order
    let mut requote_runs = 0u64;
    {
        let moves = [-4i64, -2, 0, 2, 4];
        let mut paths: Vec<Vec<i64>> = vec![vec![0]];
        let mut all: Vec<Vec<i64>> = Vec::new();
        for _ in 0..(if t { 4 } else { 3 }) {
            let mut next = Vec::new();
            for pth in &paths {
                for mv in moves {
                    let mut q = pth.clone();
                    q.push(pth[pth.len() - 1] + mv);
                    next.push(q);
                }
            }
            all.extend(next.iter().cloned());
            paths = next;
        }
        let jobs: Vec<(bool, usize, usize)> = [false, true].iter().flat_map(|&multi| (0..all.len()).flat_map(move |pi| (0..24usize).map(move |perm| (multi, pi, perm)))).collect();
        let nextj = AtomicU64::new(0);
        let rq = AtomicU64::new(0);
        std::thread::scope(|sc| {
            for _ in 0..util::n_threads() {
                sc.spawn(|| loop {
                    let i = nextj.fetch_add(1, Ordering::Relaxed) as usize;
                    if i >= jobs.len() {
                        break;
                    }
                    let (multi, pi, perm) = jobs[i];
                    let p = Params { centre: CENTRE, big_moves: false, multi, tick: 1, n: 1, decay: 1.0, scale: 0.5, demand: 100.0, ratio: 0.0, mu: 0.0, mut_keep: false, sigma: 0.0 };
                    let levels: Vec<i64> = all[pi].iter().map(|o| 2 * p.centre + o).collect();
                    rq.fetch_add(1, Ordering::Relaxed);
                    execs.fetch_add(1, Ordering::Relaxed);
                    let replay = json!({"engine": "c17", "scenario": "two layers of quotes re-quoted within one shuffled step", "params": format!("{:?}", p), "mid_levels_in_half_ticks": levels, "processing_order_script": perm});
                    match drive_requote(&p, &levels, perm, 3) {
                        Ok(a) => {
                            let ms = momentum_series(&p, &a.mids);
                            for r in 0..levels.len() {
                                let want_mid = levels[r] as f64 / 2.0 * p.tick as f64;
                                if (a.mids[r] - want_mid).abs() > 1e-9 {
                                    // (harness error: the quotes did not produce the intended mid-price)
                                    fails.lock().unwrap().entry("machinery/requote-mid".to_string()).or_insert((format!("intended mid {} got {}", want_mid, a.mids[r]), replay.clone()));
                                    break;
                                }
                                if let Err((c, d)) = judge_flow(&p, r, ms[r], &a.flows[r], None) {
                                    fails.lock().unwrap().entry(format!("momentum/{}", c)).or_insert((format!("re-quoted within one step (processing order #{}): {}", perm, d), replay.clone()));
                                }
                            }
                        }
                        Err(m) => {
                            fails.lock().unwrap().entry(format!("momentum/abort/{}", util::panic_sig(&m))).or_insert((m, replay));
                        }
                    }
                });
            }
        });
        requote_runs = rq.load(Ordering::Relaxed);
    }
    // call patterns: update twice in a row, or not at all, in one round
    let mut pattern_runs = 0u64;
    {
        let moves = [-4i64, -2, 0, 2, 4];
        let mut paths: Vec<Vec<i64>> = vec![vec![0]];
        for _ in 0..3 {
            let mut next = Vec::new();
            for pth in &paths {
                for mv in moves {
                    let mut q = pth.clone();
                    q.push(pth[pth.len() - 1] + mv);
                    next.push(q);
                }
            }
            paths = next;
        }
        for multi in [false, true] {
            for decay in [1.0, 0.5] {
                for n in [1u16, 2] {
                    let p = Params { centre: CENTRE, big_moves: false, multi, tick: 1, n, decay, scale: 0.5, demand: 100.0, ratio: 0.0, mu: 0.0, mut_keep: false, sigma: 0.0 };
                    for pth in &paths {
                        let levels: Vec<i64> = pth.iter().map(|o| 2 * p.centre + o).collect();
                        for (pattern, at) in [(1u8, 1usize), (1, 2), (1, 3), (2, 1), (2, 2)] {
                            pattern_runs += 1;
                            execs.fetch_add(1, Ordering::Relaxed);
                            let replay = json!({"engine": "c17", "scenario": if pattern == 1 { "update called twice in a row in one round" } else { "update not called in one round" }, "round": at, "params": format!("{:?}", p), "mid_levels_in_half_ticks": levels});
                            match drive_pattern(&p, &levels, pattern, at, 3) {
                                Ok(a) => {
                                    let ms = momentum_series(&p, &a.mids);
                                    for r in 0..a.mids.len() {
                                        if let Err((c, d)) = judge_flow(&p, r, ms[r], &a.flows[r], None) {
                                            fails.lock().unwrap().entry(format!("momentum/{}", c)).or_insert((format!("{} (update call #{} of the run, mid-prices seen by the calls {:?}): {}", if pattern == 1 { "update called twice in a row" } else { "a round without an update" }, r, a.mids, d), replay.clone()));
                                        }
                                    }
                                }
                                Err(m) => {
                                    fails.lock().unwrap().entry(format!("momentum/abort/{}", util::panic_sig(&m))).or_insert((m, replay));
                                }
                            }
                        }
                    }
                }
            }
        }
    }
    out.set("call_patterns", json!({"runs": pattern_runs, "rule": "update called twice in a row (no step in between) or not at all in one round of every path of three moves over -2..+2 ticks, decay 1 and 0.5, saturated demand: direction and count follow the documented recurrence applied per update call"}));
    out.set("requoted_within_one_step", json!({"runs": requote_runs, "rule": "two layers of harness quotes per side, re-quoted as one shuffled batch of four (cancel, cancel, place, place) under each of the 24 processing orders; paths over moves of -2..+2 ticks; M recomputed from mid-prices derived from the order list alone"}));
    out.set("long_trends", json!({"runs": long_runs, "rounds_each": if t { 80 } else { 40 }, "rule": "steadily rising / falling mid-price at saturated demand with order ratio 1, the agents' limit orders rest 400 ticks behind the touch and accumulate: one market and one limit order per trader in every round, mirrored flow on the mirrored path"}));
    let e = execs.load(Ordering::Relaxed);
    out.set("states", json!(e));
    out.set("transitions", json!(rounds.load(Ordering::Relaxed)));
    out.set("traces_validated_against_impl", json!(e));
    out.set("paths", json!(small_paths.len() + big_paths.len()));
    out.set("parameter_sets", json!(params.len()));
    out.set("buy_orders_observed", json!(buys.load(Ordering::Relaxed)));
    out.set("sell_orders_observed", json!(sells.load(Ordering::Relaxed)));
    out.set(
        "bounds",
        json!({"moves_per_round_in_ticks": [-2, -1, -0.5, 0, 0.5, 1, 2], "starting_levels_in_ticks": [500, 20_000_011], "huge_moves_in_ticks": [-3_000_000, -1_200_000, 0, 1_200_000, 3_000_000], "max_path_length": max_len, "decay": [1.0, 0.5], "scale": [0.5, 10.0],
               "demand": ["100 (saturated)", "0.6*n (unsaturated)", "-100 and -0.6*n, scale -0.5 (negative parameters)"], "order_ratio": [0, 0.5, 1], "traders": "1..3", "ticks": [1, 2], "multi_asset": [false, true],
               "last_round_answers": "default stream, all-zero, all-ones, mid; with ratio 0 every combination of {0, p-1e-9, p+1e-9, 1-1e-12} per trader"}),
    );
    out.push("samples", json!({"mid_level_offsets_in_half_ticks": small_paths[7], "params": format!("{:?}", params[3])}));
    if buys.load(Ordering::Relaxed) == 0 {
        out.machinery_errors.push("vacuous: no buy order observed".into());
    }
    let fails = fails.into_inner().unwrap();
    if fails.is_empty() && sells.load(Ordering::Relaxed) == 0 {
        out.machinery_errors.push("vacuous: no sell order observed".into());
    }
    for (sig, (d, r)) in fails {
        out.fail_other(&sig, d, r);
    }
    out.assumptions = vec!["M is recomputed by the harness from the mid-prices it observed, with the documented recurrence".into()];
    out.finish()
}
