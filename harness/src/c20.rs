//! C20: derived agent sets update every member once, in declaration order, on the shared
//! environment and generator. Programs = generated struct shapes (build.rs), each compared
//! call by call and draw by draw with the hand-written flattened sequence of calls.

use crate::report::Outcome;
use crate::snap::OrderRec;
use bourse_book::types::Side;
use bourse_de::agents::{Agent, AgentSet, MarketAgent, MarketAgentSet};
use bourse_de::{Env, MarketEnv};
use rand::RngCore;
use rand_xoshiro::rand_core::SeedableRng;
use rand_xoshiro::Xoroshiro128StarStar;
pub type Gen = ProbeRng;
use serde_json::json;
use std::cell::RefCell;
use std::rc::Rc;

/// (field tag, fingerprint of the environment the probe was handed, draw it took)
pub type LogEntry = (u32, u64, u64);
pub type Log = Rc<RefCell<Vec<LogEntry>>>;

#[derive(Debug, Clone, PartialEq)]
pub struct Trace {
    pub log: Vec<LogEntry>,
    pub orders: Vec<Vec<OrderRec>>,
    pub next_draw: u64,
}

/// The generator handed to the sets. Kind 0 is the library runner's Xoroshiro128**; kind 1 answers
/// `next_u32`, `next_u64` and `fill_bytes` from three independent streams, so a member that is handed
/// anything but the caller's generator itself (a wrapper that derives one width from another, a
/// copy, a re-seeded generator) draws different values.
pub struct ProbeRng {
    kind: u8,
    x: Xoroshiro128StarStar,
    s32: u64,
    s64: u64,
    sfill: u64,
}
fn splitmix(z: &mut u64) -> u64 {
    *z = z.wrapping_add(0x9E37_79B9_7F4A_7C15);
    let mut x = *z;
    x = (x ^ (x >> 30)).wrapping_mul(0xBF58_476D_1CE4_E5B9);
    x = (x ^ (x >> 27)).wrapping_mul(0x94D0_49BB_1331_11EB);
    x ^ (x >> 31)
}
impl ProbeRng {
    pub fn new(kind: u8, seed: u64) -> Self {
        ProbeRng { kind, x: Xoroshiro128StarStar::seed_from_u64(seed), s32: seed ^ 0x1111, s64: seed ^ 0x2222_0000, sfill: seed ^ 0x3333_0000_0000 }
    }
    /// the next answer of every stream (the state a later user of the generator would see)
    pub fn fingerprint(&mut self) -> u64 {
        let mut b = [0u8; 8];
        self.fill_bytes(&mut b);
        crate::util::fnv_of(&(self.next_u32(), self.next_u64(), b))
    }
}
impl RngCore for ProbeRng {
    fn next_u32(&mut self) -> u32 {
        if self.kind == 0 {
            self.x.next_u32()
        } else {
            (splitmix(&mut self.s32) >> 7) as u32
        }
    }
    fn next_u64(&mut self) -> u64 {
        if self.kind == 0 {
            self.x.next_u64()
        } else {
            splitmix(&mut self.s64)
        }
    }
    fn fill_bytes(&mut self, dest: &mut [u8]) {
        if self.kind == 0 {
            self.x.fill_bytes(dest)
        } else {
            for d in dest.iter_mut() {
                *d = (splitmix(&mut self.sfill) >> 11) as u8;
            }
        }
    }
    fn try_fill_bytes(&mut self, dest: &mut [u8]) -> Result<(), rand::Error> {
        self.fill_bytes(dest);
        Ok(())
    }
}

thread_local! {
    /// log of the zero-sized probes (they have no field to keep a handle in); drained into the trace
    static ZLOG: RefCell<Option<Log>> = const { RefCell::new(None) };
}
fn zlog_push(e: LogEntry) {
    ZLOG.with(|z| {
        if let Some(l) = z.borrow().as_ref() {
            l.borrow_mut().push(e);
        }
    });
}
fn zlog_set(l: Option<Log>) {
    ZLOG.with(|z| *z.borrow_mut() = l);
}
/// A member without any run-time state (a unit struct): it is updated like every other member.
pub struct ProbeZ;
pub struct MProbeZ;
pub const ZTAG: u32 = 777;
impl Agent for ProbeZ {
    fn update<R: RngCore>(&mut self, env: &mut Env, rng: &mut R) {
        let fp = fp_env(env);
        let mut b = [0u8; 2];
        rng.fill_bytes(&mut b);
        let d = u16::from_le_bytes(b) as u64;
        zlog_push((ZTAG, fp, d));
        env.place_order(Side::Bid, 2, ZTAG, Some(1 + (d % 1000) as u32)).unwrap();
    }
}
impl MarketAgent for MProbeZ {
    fn update<R: RngCore, const M: usize, const N: usize>(&mut self, env: &mut MarketEnv<M, N>, rng: &mut R) {
        let fp = fp_any(env);
        let mut b = [0u8; 2];
        rng.fill_bytes(&mut b);
        let d = u16::from_le_bytes(b) as u64;
        zlog_push((ZTAG, fp, d));
        env.place_order((d % M as u64) as usize, Side::Bid, 2, ZTAG, Some(1 + (d % 1000) as u32)).unwrap();
    }
}

fn fp_env(e: &Env) -> u64 {
    let o: Vec<OrderRec> = e.get_orders().into_iter().map(OrderRec::of).collect();
    crate::util::fnv_of(&(o, e.get_orderbook().get_time()))
}
fn fp_menv(e: &MarketEnv<2, 3>) -> u64 {
    let o: Vec<Vec<OrderRec>> = (0..2).map(|a| e.get_orders(a).into_iter().map(OrderRec::of).collect()).collect();
    crate::util::fnv_of(&(o, e.get_market().get_time()))
}

pub struct ProbeA {
    tag: u32,
    log: Log,
}
pub struct ProbeB {
    tag: u32,
    log: Log,
}
impl ProbeA {
    pub fn new(tag: u32, log: &Log) -> Self {
        ProbeA { tag, log: log.clone() }
    }
}
impl ProbeB {
    pub fn new(tag: u32, log: &Log) -> Self {
        ProbeB { tag, log: log.clone() }
    }
}
impl Agent for ProbeA {
    fn update<R: RngCore>(&mut self, env: &mut Env, rng: &mut R) {
        let fp = fp_env(env);
        let d = rng.next_u32() as u64;
        self.log.borrow_mut().push((self.tag, fp, d));
        env.place_order(Side::Bid, 1 + self.tag, self.tag, Some(1 + (d % 1000) as u32)).unwrap();
    }
}
impl Agent for ProbeB {
    fn update<R: RngCore>(&mut self, env: &mut Env, rng: &mut R) {
        let fp = fp_env(env);
        let d = rng.next_u64();
        self.log.borrow_mut().push((self.tag, fp, d));
        env.place_order(Side::Ask, 1 + self.tag, self.tag, Some(5000 + (d % 1000) as u32)).unwrap();
    }
}

pub struct MProbeA {
    tag: u32,
    log: Log,
}
pub struct MProbeB {
    tag: u32,
    log: Log,
}
impl MProbeA {
    pub fn new(tag: u32, log: &Log) -> Self {
        MProbeA { tag, log: log.clone() }
    }
}
impl MProbeB {
    pub fn new(tag: u32, log: &Log) -> Self {
        MProbeB { tag, log: log.clone() }
    }
}
// the market probes are only ever run on MarketEnv<2, 3>; the fingerprint needs the concrete type
fn fp_any<const M: usize, const N: usize>(env: &MarketEnv<M, N>) -> u64 {
    let o: Vec<Vec<OrderRec>> = (0..M).map(|a| env.get_orders(a).into_iter().map(OrderRec::of).collect()).collect();
    crate::util::fnv_of(&(o, env.get_market().get_time()))
}
impl MarketAgent for MProbeA {
    fn update<R: RngCore, const M: usize, const N: usize>(&mut self, env: &mut MarketEnv<M, N>, rng: &mut R) {
        let fp = fp_any(env);
        let d = rng.next_u32() as u64;
        self.log.borrow_mut().push((self.tag, fp, d));
        env.place_order((d % M as u64) as usize, Side::Bid, 1 + self.tag, self.tag, Some(1 + (d % 1000) as u32)).unwrap();
    }
}
impl MarketAgent for MProbeB {
    fn update<R: RngCore, const M: usize, const N: usize>(&mut self, env: &mut MarketEnv<M, N>, rng: &mut R) {
        let fp = fp_any(env);
        let d = rng.next_u64();
        self.log.borrow_mut().push((self.tag, fp, d));
        env.place_order((d % M as u64) as usize, Side::Ask, 1 + self.tag, self.tag, Some(5000 + (d % 1000) as u32)).unwrap();
    }
}

/// Environment configuration a shape is run under, packed into the upper half of the "seed":
/// step size (1000, 1, 2, 8), instructions already waiting in the queue when the set's update
/// starts (0, 1, 3: submitted by the harness itself before every update), and the call pattern
/// (update-step-update, or update-update-step-update).
pub fn configs(thorough: bool) -> Vec<u64> {
    let mut v = Vec::new();
    for ss in 0..4u64 {
        for pre in 0..3u64 {
            for pat in 0..2u64 {
                let _ = thorough; // (cheap: every configuration runs in both tiers)
                for gen in 0..2u64 {
                    v.push(ss | pre << 2 | pat << 4 | gen << 5);
                }
            }
        }
    }
    v
}
fn cfg_of(seed: u64) -> (u64, usize, bool, u64) {
    let c = seed >> 32;
    ([1000u64, 1, 2, 8][(c & 3) as usize], [0usize, 1, 3][((c >> 2) & 3) as usize % 3], (c >> 4) & 1 == 1, seed & 0xFFFF_FFFF)
}
fn gen_kind(seed: u64) -> u8 {
    ((seed >> 37) & 1) as u8
}
pub fn cfg_text(seed: u64) -> String {
    let (ss, pre, twice, s) = cfg_of(seed);
    format!(
        "seed {} step size {} instructions waiting before each update {} pattern {} generator {}",
        s,
        ss,
        pre,
        if twice { "update,update,step,update" } else { "update,step,update" },
        if gen_kind(seed) == 0 { "Xoroshiro128**" } else { "independent streams per draw width" }
    )
}

#[allow(non_snake_case)]
fn trace_S<T>(seed: u64, make: fn(&Log) -> T, upd: fn(&mut T, &mut Env, &mut Gen)) -> Trace {
    let kind = gen_kind(seed);
    let (ss, pre, twice, seed) = cfg_of(seed);
    let log: Log = Rc::new(RefCell::new(Vec::new()));
    zlog_set(Some(log.clone()));
    let mut a = make(&log);
    let mut env = Env::new(0, 1, ss, true);
    let mut rng = ProbeRng::new(kind, seed);
    let mut go = |a: &mut T, env: &mut Env, rng: &mut Gen| {
        for k in 0..pre {
            env.place_order(Side::Bid, 7, 9000 + k as u32, Some(3)).unwrap();
        }
        upd(a, env, rng);
    };
    go(&mut a, &mut env, &mut rng);
    if twice {
        go(&mut a, &mut env, &mut rng);
    }
    env.step(&mut rng);
    go(&mut a, &mut env, &mut rng);
    let orders = vec![env.get_orders().into_iter().map(OrderRec::of).collect()];
    let l = log.borrow().clone();
    let _ = fp_menv;
    zlog_set(None);
    Trace { log: l, orders, next_draw: rng.fingerprint() }
}

#[allow(non_snake_case)]
fn trace_M<T, const MM: usize, const NN: usize>(seed: u64, make: fn(&Log) -> T, upd: fn(&mut T, &mut MarketEnv<MM, NN>, &mut Gen)) -> Trace {
    let log: Log = Rc::new(RefCell::new(Vec::new()));
    zlog_set(Some(log.clone()));
    let mut a = make(&log);
    let kind = gen_kind(seed);
    let (ss, pre, twice, seed) = cfg_of(seed);
    let mut env: MarketEnv<MM, NN> = MarketEnv::new(0, [1; MM], ss, true);
    let mut rng = ProbeRng::new(kind, seed);
    let mut go = |a: &mut T, env: &mut MarketEnv<MM, NN>, rng: &mut Gen| {
        for k in 0..pre {
            env.place_order(k % MM, Side::Bid, 7, 9000 + k as u32, Some(3)).unwrap();
        }
        upd(a, env, rng);
    };
    go(&mut a, &mut env, &mut rng);
    if twice {
        go(&mut a, &mut env, &mut rng);
    }
    env.step(&mut rng);
    go(&mut a, &mut env, &mut rng);
    let orders = (0..MM).map(|x| env.get_orders(x).into_iter().map(OrderRec::of).collect()).collect();
    let l = log.borrow().clone();
    zlog_set(None);
    Trace { log: l, orders, next_draw: rng.fingerprint() }
}

/// A member that cancels (twice) the oldest order there is: several members of one set then queue
/// cancellations of the same order - every one of them is an instruction of its own.
pub struct ProbeC {
    tag: u32,
    log: Log,
}
impl Agent for ProbeC {
    fn update<R: RngCore>(&mut self, env: &mut Env, rng: &mut R) {
        let fp = fp_env(env);
        let d = rng.next_u32() as u64;
        self.log.borrow_mut().push((self.tag, fp, d));
        if !env.get_orders().is_empty() {
            env.cancel_order(0);
            env.cancel_order(0);
        }
    }
}
pub struct MProbeC {
    tag: u32,
    log: Log,
}
impl MarketAgent for MProbeC {
    fn update<R: RngCore, const M: usize, const N: usize>(&mut self, env: &mut MarketEnv<M, N>, rng: &mut R) {
        let fp = fp_any(env);
        let d = rng.next_u32() as u64;
        self.log.borrow_mut().push((self.tag, fp, d));
        if !env.get_orders(0).is_empty() {
            env.cancel_order((0, 0));
            env.cancel_order((0, 0));
        }
    }
}

// Hand-declared sets with LIBRARY agents among the members (a population with activity rate 0 still takes its
// draws) and with members that queue cancellations of one and the same order.
#[derive(AgentSet)]
pub struct LibSetS {
    a: ProbeA,
    idle: bourse_de::agents::RandomAgents,
    c1: ProbeC,
    c2: ProbeC,
    busy: bourse_de::agents::RandomAgents,
    b: ProbeB,
}
fn make_LibSetS(log: &Log) -> LibSetS {
    LibSetS {
        a: ProbeA::new(1, log),
        idle: bourse_de::agents::RandomAgents::new(3, (10, 20), (1, 3), 1, 0.0),
        c1: ProbeC { tag: 2, log: log.clone() },
        c2: ProbeC { tag: 3, log: log.clone() },
        busy: bourse_de::agents::RandomAgents::new(2, (10, 20), (1, 3), 1, 1.0),
        b: ProbeB::new(4, log),
    }
}
fn derived_LibSetS<R: RngCore>(x: &mut LibSetS, env: &mut Env, rng: &mut R) {
    AgentSet::update(x, env, rng);
}
fn hand_LibSetS<R: RngCore>(x: &mut LibSetS, env: &mut Env, rng: &mut R) {
    x.a.update(env, rng);
    x.idle.update(env, rng);
    x.c1.update(env, rng);
    x.c2.update(env, rng);
    x.busy.update(env, rng);
    x.b.update(env, rng);
}
#[derive(MarketAgentSet)]
pub struct LibSetM {
    a: MProbeA,
    idle: bourse_de::agents::RandomMarketAgents,
    c1: MProbeC,
    c2: MProbeC,
    busy: bourse_de::agents::RandomMarketAgents,
    b: MProbeB,
}
fn make_LibSetM(log: &Log) -> LibSetM {
    LibSetM {
        a: MProbeA::new(1, log),
        idle: bourse_de::agents::RandomMarketAgents::new(0, 3, (10, 20), (1, 3), 1, 0.0),
        c1: MProbeC { tag: 2, log: log.clone() },
        c2: MProbeC { tag: 3, log: log.clone() },
        busy: bourse_de::agents::RandomMarketAgents::new(0, 2, (10, 20), (1, 3), 1, 1.0),
        b: MProbeB::new(4, log),
    }
}
fn derived_LibSetM<R: RngCore, const MM: usize, const NN: usize>(x: &mut LibSetM, env: &mut MarketEnv<MM, NN>, rng: &mut R) {
    MarketAgentSet::update(x, env, rng);
}
fn hand_LibSetM<R: RngCore, const MM: usize, const NN: usize>(x: &mut LibSetM, env: &mut MarketEnv<MM, NN>, rng: &mut R) {
    x.a.update(env, rng);
    x.idle.update(env, rng);
    x.c1.update(env, rng);
    x.c2.update(env, rng);
    x.busy.update(env, rng);
    x.b.update(env, rng);
}

include!(concat!(env!("OUT_DIR"), "/c20_gen.rs"));

pub fn c20(tier: &str) -> i32 {
    let mut out = Outcome::new("C20", tier, "model_checking");
    let t = crate::bookprops::thorough(tier);
    let base_seeds: Vec<u64> = if t { (0..8).collect() } else { vec![0, 1] };
    let cfgs = configs(t);
    let seeds: Vec<u64> = cfgs.iter().flat_map(|c| base_seeds.iter().map(move |s| c << 32 | s)).collect();
    let mut programs = 0u64;
    let mut calls = 0u64;
    let mut fails: Vec<(String, String, serde_json::Value)> = Vec::new();
    let mut samples = Vec::new();
    let mut judge = |mac: &str, word: &str, seed: u64, d: Trace, h: Trace| {
        programs += 1;
        calls += h.log.len() as u64;
        if samples.len() < 3 && word.len() == 3 && seed == 0 {
            // (configuration 0, seed 0)
            samples.push(json!({"macro": mac, "field_kinds": word, "seed": seed, "hand_written_log": h.log.iter().map(|e| format!("tag {} draw {}", e.0, e.2)).collect::<Vec<_>>()}));
        }
        if d != h {
            let tags_d: Vec<u32> = d.log.iter().map(|e| e.0).collect();
            let tags_h: Vec<u32> = h.log.iter().map(|e| e.0).collect();
            let clause = if tags_d != tags_h {
                let mut sd = tags_d.clone();
                let mut sh = tags_h.clone();
                sd.sort();
                sh.sort();
                if sd == sh {
                    "fields-updated-out-of-declaration-order"
                } else if tags_d.len() < tags_h.len() {
                    "field-not-updated"
                } else if tags_d.len() > tags_h.len() {
                    "field-updated-more-than-once"
                } else {
                    "different-fields-updated"
                }
            } else if d.log != h.log {
                "different-environment-or-generator-handed-to-field"
            } else if d.next_draw != h.next_draw {
                "generator-state-differs"
            } else {
                "final-environment-differs"
            };
            fails.push((
                format!("derive/{}/{}", mac, clause),
                format!("struct with field kinds {} (A/B probe agents, Z zero-sized unit-struct agent, N/T/F nested derived sets of 2/3/5 members, Y nested set of two zero-sized agents), {}: derived update logged tags {:?}, hand-written calls {:?}", word, cfg_text(seed), tags_d, tags_h),
                json!({"macro": mac, "field_kinds": word, "config": cfg_text(seed)}),
            ));
        }
    };
    for &seed in &seeds {
        let d = trace_S(seed, make_LibSetS, derived_LibSetS);
        let h = trace_S(seed, make_LibSetS, hand_LibSetS);
        judge("AgentSet", "probe, RandomAgents(rate 0), cancelling probe, cancelling probe, RandomAgents(rate 1), probe", seed, d, h);
        let d = trace_M::<_, 2, 3>(seed, make_LibSetM, derived_LibSetM);
        let h = trace_M::<_, 2, 3>(seed, make_LibSetM, hand_LibSetM);
        judge("MarketAgentSet", "probe, RandomMarketAgents(rate 0), cancelling probe, cancelling probe, RandomMarketAgents(rate 1), probe", seed, d, h);
    }
    run_all_S(&seeds, &mut judge);
    run_all_M(&seeds, &mut judge);
    out.set("states", json!(programs));
    out.set("transitions", json!(calls));
    out.set("traces_validated_against_impl", json!(programs));
    out.set("programs", json!(2 * N_SHAPES));
    out.set("seeds", json!(base_seeds));
    out.set("environment_configurations", json!(cfgs.iter().map(|c| cfg_text(c << 32)).collect::<Vec<_>>()));
    out.set("rule", json!("every word of length 1..4 over field kinds {A, B, N(ested derived set)} plus 14 shapes of 5..8 fields and 17 shapes holding nested sets of three and five members (larger than the set they sit in), and every word of length 1..3 plus two long shapes re-declared with six syntactic decorations (field attributes incl. #[rustfmt::skip] / #[cfg(all())] / doc comments, struct attributes around the derive, mixed visibilities, type paths and parenthesised types, raw identifiers, a macro_rules! template passing the member types as `ty` fragments), for both derive macros (the multi-asset one on MarketEnv<2,3> and, for the shapes of up to three members, also on MarketEnv<1,1> and on MarketEnv<3,0> - no published levels at all); a hand-declared set holding library agents (a random population with activity rate 0, which still takes its draws, and one with rate 1) and two members that each queue cancellations of one and the same order; shapes holding zero-sized members (unit structs) and a nested set made only of such members; run with two generators (the Xoroshiro128** of the library runner and one answering next_u32 / next_u64 / fill_bytes from three independent streams, the probes drawing through all three) under several environment configurations (step sizes 1000, 1, 2, 8; 0, 1 or 3 instructions already waiting in the queue before each update; update-step-update and update-update-step-update); log of (tag, environment fingerprint, draw), final orders and next generator draw compared with the flattened hand-written calls"));
    for s in samples {
        out.push("samples", s);
    }
    for (sig, d, r) in fails {
        out.fail_other(&sig, d, r);
    }
    out.assumptions = vec!["struct shapes are limited to named-field, non-generic structs of probe agents and nested derived sets".into()];
    out.finish()
}
