//! Engine E3: explicit-state closure over abstract live-book states, driven through the real
//! simulation environments (`Env`, `MarketEnv`). A state is an abstract book (trading flag, the
//! priority-ordered resting orders per side) with a representative history of *steps*; an action is
//! one step: a batch of at most `max_batch` instructions (new limit / market orders, cancels and
//! modifies addressed by queue rank, cancels / modifies aimed at an order of the same batch)
//! together with one generator script for the shuffle (every index script of the batch size, i.e.
//! every processing order), or a trading toggle. `next_state` rebuilds a fresh real environment,
//! replays the representative history and the new step on it, and judges the step:
//!
//! * C10: between submission and step nothing but the appended `New` records changes, and the
//!   level-2 snapshot the environment hands out equals the live book's after the step;
//! * C08: some permutation of the batch, replayed on the reference engine at times start+i,
//!   reproduces the live book exactly (orders, trades, views, clock = start + step size); the
//!   step's traded volume is that of the step's trades;
//! * C11: every recorded series grew by exactly one entry equal to the live value, older entries
//!   are untouched;
//! * C14 (multi-asset runs): the idle asset's book, records and snapshot do not move.
//!
//! Keys forget ids, times and dead orders exactly as in E2 (DESIGN 2.3); the schedule the real
//! step took is not assumed from the script but inferred (any permutation that explains the
//! observation is accepted), so that this engine does not depend on C15.

use crate::envx::{AnyEnv, AssetObs, EnvObs};
use crate::refmodel::RefModel;
use crate::report::Outcome;
use crate::scriptrng::{all_index_scripts, Ans, ScriptRng};
use crate::snap::*;
use crate::util;
use serde_json::json;
use stateright::{Checker, Model, Property};
use std::collections::BTreeMap;
use std::hash::{Hash, Hasher};
use std::sync::atomic::{AtomicU64, Ordering};
use std::sync::{Arc, Mutex};

const LEVELS: usize = 3;

#[derive(Clone, Debug, PartialEq, Eq, Hash)]
pub enum AI {
    Limit { bid: bool, price: u32, vol: u32 },
    Market { bid: bool, vol: u32 },
    CancelRank { bid: bool, rank: usize },
    ModifyRank { bid: bool, rank: usize, price: Option<u32>, vol: Option<u32> },
    /// aimed at the new order submitted as item `j` of the same batch
    CancelSame { j: usize },
    ModifySame { j: usize, price: Option<u32>, vol: Option<u32> },
}

#[derive(Clone, Debug, PartialEq, Eq, Hash)]
pub enum EAct {
    Step { batch: Vec<AI>, script: usize },
    Enable,
    Disable,
}

#[derive(Clone, Debug, PartialEq, Eq, Hash)]
pub struct EKey {
    trading: bool,
    bids: Vec<(u32, u32)>,
    asks: Vec<(u32, u32)>,
    bad: bool,
    /// suffix mode: what kinds of instruction the last `suffix_k` steps held (bit mask: new order,
    /// cancel, modify, instruction aimed at an order of the same batch, toggle). States entered by
    /// different kinds of step are kept apart and each is expanded (state an environment or book
    /// carries from one step to the next depends on how the book was entered, not only on the book).
    suffix: Vec<u8>,
}

#[derive(Clone, Debug)]
pub struct EState {
    pub key: EKey,
    /// representative history in CONCRETE form (instructions with their ids, shuffle script), so
    /// that replaying it on a fresh real environment needs no model
    pub hist: Vec<CStep>,
    /// every reference state that explains what has been observed so far. Two processing orders
    /// of a step can leave identical observations and different hidden queue orders (two re-pricing
    /// modifies onto one level carry no stamp); both are kept until a later step tells them apart.
    pub models: Vec<RefModel>,
}

/// one concrete step of a representative history
#[derive(Clone, Debug)]
pub enum CStep {
    Toggle(bool),
    Step { abs: Vec<AI>, cis: Vec<CI>, script: usize },
}
impl PartialEq for EState {
    fn eq(&self, o: &Self) -> bool {
        self.key == o.key
    }
}
impl Eq for EState {}
impl Hash for EState {
    fn hash<H: Hasher>(&self, h: &mut H) {
        self.key.hash(h)
    }
}

/// concrete instruction: (kind, id or new-order data)
#[derive(Clone, Debug)]
pub enum CI {
    New { bid: bool, vol: u32, price: Option<u32>, id: usize },
    Cancel { id: usize },
    Modify { id: usize, price: Option<u32>, vol: Option<u32> },
}

#[derive(Clone)]
pub struct EnvAbs {
    pub multi: bool,
    /// asset the explored book lives on (multi-asset runs; the other asset holds a static book)
    pub asset: usize,
    pub step_size: u64,
    pub start_trading: bool,
    pub prices: Vec<u32>,
    pub limit_vols: Vec<u32>,
    pub market_vols: Vec<u32>,
    pub modify_vols: Vec<u32>,
    pub max_rest: usize,
    pub max_vol: u32,
    pub max_batch: usize,
    pub toggles: bool,
    pub same_batch_targets: bool,
    pub thin_pairs: bool,
    /// orders placed and cancelled (two extra steps) before the exploration starts: the explored
    /// histories then run on an environment that has already seen this many orders
    pub aged: usize,
    pub suffix_k: usize,
    pub transitions: Arc<AtomicU64>,
    pub cut: Arc<AtomicU64>,
    pub multi_candidate_steps: Arc<AtomicU64>,
    pub trading_steps: Arc<AtomicU64>,
    pub fails: Arc<Mutex<BTreeMap<String, (String, Vec<CStep>)>>>,
}

fn key_of(m: &RefModel, bad: bool, suffix: Vec<u8>) -> EKey {
    let (trading, bids, asks) = m.live_key();
    EKey { trading, bids, asks, bad, suffix }
}

fn act_class(a: &EAct) -> u8 {
    match a {
        EAct::Enable | EAct::Disable => 16,
        EAct::Step { batch, .. } => batch.iter().fold(0u8, |acc, i| {
            acc | match i {
                AI::Limit { .. } | AI::Market { .. } => 1,
                AI::CancelRank { .. } => 2,
                AI::ModifyRank { .. } => 4,
                AI::CancelSame { .. } | AI::ModifySame { .. } => 8,
            }
        }),
    }
}

fn permutations(n: usize) -> Vec<Vec<usize>> {
    fn rec(cur: &mut Vec<usize>, used: &mut Vec<bool>, n: usize, out: &mut Vec<Vec<usize>>) {
        if cur.len() == n {
            out.push(cur.clone());
            return;
        }
        for i in 0..n {
            if !used[i] {
                used[i] = true;
                cur.push(i);
                rec(cur, used, n, out);
                cur.pop();
                used[i] = false;
            }
        }
    }
    let mut out = Vec::new();
    rec(&mut Vec::new(), &mut vec![false; n], n, &mut out);
    out
}

impl EnvAbs {
    fn singles(&self, s: &EState) -> Vec<AI> {
        let mut v = Vec::new();
        for bid in [true, false] {
            for &price in &self.prices {
                for &vol in &self.limit_vols {
                    v.push(AI::Limit { bid, price, vol });
                }
            }
            for &vol in &self.market_vols {
                v.push(AI::Market { bid, vol });
            }
            let n = if bid { s.key.bids.len() } else { s.key.asks.len() };
            for rank in 0..n {
                v.push(AI::CancelRank { bid, rank });
                let mut popts: Vec<Option<u32>> = vec![None];
                popts.extend(self.prices.iter().map(|p| Some(*p)));
                for p in &popts {
                    let mut vopts: Vec<Option<u32>> = vec![None];
                    vopts.extend(self.modify_vols.iter().map(|x| Some(*x)));
                    for vol in &vopts {
                        if p.is_none() && vol.is_none() {
                            continue;
                        }
                        v.push(AI::ModifyRank { bid, rank, price: *p, vol: *vol });
                    }
                }
            }
        }
        v
    }

    fn batches(&self, s: &EState) -> Vec<Vec<AI>> {
        let singles = self.singles(s);
        let mut out: Vec<Vec<AI>> = singles.iter().map(|a| vec![a.clone()]).collect();
        if self.max_batch >= 2 {
            // (quick tier: pairs are formed over a thinned alphabet - the largest limit volume, the
            // smallest market volume, re-pricing to each price and the pure reduction to volume 1)
            let pair_alphabet: Vec<AI> = if self.thin_pairs {
                singles
                    .iter()
                    .filter(|a| match a {
                        AI::Limit { vol, .. } => *vol == self.limit_vols[self.limit_vols.len() - 1],
                        AI::Market { vol, .. } => *vol == self.market_vols[0],
                        AI::ModifyRank { price, vol, .. } => (price.is_some() && vol.is_none()) || (price.is_none() && *vol == Some(1)),
                        _ => true,
                    })
                    .cloned()
                    .collect()
            } else {
                singles.clone()
            };
            let singles = &pair_alphabet;
            for a in singles {
                for b in singles {
                    out.push(vec![a.clone(), b.clone()]);
                }
                if self.same_batch_targets {
                    if let AI::Limit { .. } = a {
                        out.push(vec![a.clone(), AI::CancelSame { j: 0 }]);
                        let other = self.prices[self.prices.len() - 1];
                        out.push(vec![a.clone(), AI::ModifySame { j: 0, price: Some(other), vol: None }]);
                        out.push(vec![a.clone(), AI::ModifySame { j: 0, price: None, vol: Some(1) }]);
                    }
                }
            }
        }
        if self.max_batch >= 3 {
            // three-instruction batches over a thinned alphabet: one limit price/volume per side,
            // cancels of the queue heads
            let thin: Vec<AI> = singles
                .iter()
                .filter(|a| match a {
                    AI::Limit { price, vol, .. } => *price == self.prices[0] && *vol == self.limit_vols[self.limit_vols.len() - 1],
                    AI::Market { vol, .. } => *vol == self.market_vols[0],
                    AI::CancelRank { rank, .. } => *rank == 0,
                    AI::ModifyRank { rank, price, vol, .. } => *rank == 0 && price.is_some() && vol.is_none(),
                    _ => false,
                })
                .cloned()
                .collect();
            for a in &thin {
                for b in &thin {
                    for c in &thin {
                        out.push(vec![a.clone(), b.clone(), c.clone()]);
                    }
                }
            }
        }
        out
    }

    /// ids the batch refers to, given the model before the step (new ids are allocated in submission order)
    fn concretise(&self, m: &RefModel, batch: &[AI]) -> Option<Vec<CI>> {
        let mut next_id = m.orders.len();
        let mut new_ids: Vec<Option<usize>> = vec![None; batch.len()];
        let mut out = Vec::new();
        for (i, a) in batch.iter().enumerate() {
            out.push(match a {
                AI::Limit { bid, price, vol } => {
                    new_ids[i] = Some(next_id);
                    next_id += 1;
                    CI::New { bid: *bid, vol: *vol, price: Some(*price), id: new_ids[i].unwrap() }
                }
                AI::Market { bid, vol } => {
                    new_ids[i] = Some(next_id);
                    next_id += 1;
                    CI::New { bid: *bid, vol: *vol, price: None, id: new_ids[i].unwrap() }
                }
                AI::CancelRank { bid, rank } => CI::Cancel { id: m.queue(*bid).get(*rank)?.id },
                AI::ModifyRank { bid, rank, price, vol } => CI::Modify { id: m.queue(*bid).get(*rank)?.id, price: *price, vol: *vol },
                AI::CancelSame { j } => CI::Cancel { id: new_ids[*j]? },
                AI::ModifySame { j, price, vol } => CI::Modify { id: new_ids[*j]?, price: *price, vol: *vol },
            });
        }
        Some(out)
    }

    fn make_env(&self) -> AnyEnv<2, LEVELS> {
        // (A = 2 is only used by the multi-asset variant; the single-asset one is built separately)
        let mut env = AnyEnv::<2, LEVELS>::make(true, 0, &[1, 1], self.step_size, self.start_trading);
        // the other asset holds a static two-sided book
        let other = 1 - self.asset;
        let _ = env.place(other, true, 3, 900, Some(7));
        let _ = env.place(other, false, 2, 901, Some(9));
        let mut r = ScriptRng::new(vec![], 77);
        env.step(&mut r);
        env
    }
}

/// The real environment behind one face for this engine (single-asset `Env<3>` or `MarketEnv<2,3>`)
enum RealEnv {
    Single(AnyEnv<1, LEVELS>),
    Multi(AnyEnv<2, LEVELS>),
}

impl RealEnv {
    fn place(&mut self, a: usize, bid: bool, vol: u32, trader: u32, price: Option<u32>) -> Result<(usize, usize), ()> {
        match self {
            RealEnv::Single(e) => e.place(0, bid, vol, trader, price),
            RealEnv::Multi(e) => e.place(a, bid, vol, trader, price),
        }
    }
    fn cancel(&mut self, a: usize, id: usize) {
        match self {
            RealEnv::Single(e) => e.cancel(0, id),
            RealEnv::Multi(e) => e.cancel(a, id),
        }
    }
    fn modify(&mut self, a: usize, id: usize, p: Option<u32>, v: Option<u32>) {
        match self {
            RealEnv::Single(e) => e.modify(0, id, p, v),
            RealEnv::Multi(e) => e.modify(a, id, p, v),
        }
    }
    fn step(&mut self, r: &mut ScriptRng) {
        match self {
            RealEnv::Single(e) => e.step(r),
            RealEnv::Multi(e) => e.step(r),
        }
    }
    fn enable(&mut self) {
        match self {
            RealEnv::Single(e) => e.enable(),
            RealEnv::Multi(e) => e.enable(),
        }
    }
    fn disable(&mut self) {
        match self {
            RealEnv::Single(e) => e.disable(),
            RealEnv::Multi(e) => e.disable(),
        }
    }
    fn observe(&self) -> EnvObs {
        match self {
            RealEnv::Single(e) => e.observe(),
            RealEnv::Multi(e) => e.observe(),
        }
    }
}

type Verdict = Result<(), (String, String)>;


fn l2_matches_book(o: &AssetObs) -> Verdict {
    // the level-2 record the environment hands out vs the live book's own views
    let v = &o.book.views;
    let live_head = [v.bid_ask.0, v.bid_ask.1, v.bid_vol, v.ask_vol];
    if o.l2.head != live_head || o.l2.bid != v.bid_levels || o.l2.ask != v.ask_levels {
        return Err((
            "l2-snapshot-not-live-book".into(),
            format!("environment level-2 data {:?} / {:?} / {:?}, live book {:?} / {:?} / {:?}", o.l2.head, o.l2.bid, o.l2.ask, live_head, v.bid_levels, v.ask_levels),
        ));
    }
    Ok(())
}

fn records_grew_by_one(before: &AssetObs, after: &AssetObs, steps_after: usize) -> Verdict {
    let bad = |c: &str, d: String| Err((c.to_string(), d));
    let (b, a) = (&before.rec, &after.rec);
    let v = &after.book.views;
    let check = |name: &str, old: &Vec<u32>, new: &Vec<u32>, live: u32| -> Verdict {
        if new.len() != steps_after {
            return Err(("series-length".into(), format!("{} has {} entries after {} steps", name, new.len(), steps_after)));
        }
        if new[..new.len() - 1] != old[..] {
            return Err(("series-history-rewritten".into(), format!("{}: {:?} became {:?}", name, old, new)));
        }
        if new[new.len() - 1] != live {
            return Err(("series-last-entry".into(), format!("{}: last entry {} but the live book says {}", name, new[new.len() - 1], live)));
        }
        Ok(())
    };
    check("bid prices", &b.prices.0, &a.prices.0, v.bid_ask.0)?;
    check("ask prices", &b.prices.1, &a.prices.1, v.bid_ask.1)?;
    check("bid volumes", &b.volumes.0, &a.volumes.0, v.bid_vol)?;
    check("ask volumes", &b.volumes.1, &a.volumes.1, v.ask_vol)?;
    check("bid touch volumes", &b.touch_vols.0, &a.touch_vols.0, v.bid_best_vo.0)?;
    check("ask touch volumes", &b.touch_vols.1, &a.touch_vols.1, v.ask_best_vo.0)?;
    check("bid touch order counts", &b.touch_counts.0, &a.touch_counts.0, v.bid_best_vo.1)?;
    check("ask touch order counts", &b.touch_counts.1, &a.touch_counts.1, v.ask_best_vo.1)?;
    if a.level_vols.0.len() != LEVELS || a.level_vols.1.len() != LEVELS || a.level_counts.0.len() != LEVELS || a.level_counts.1.len() != LEVELS {
        return bad("series-count", format!("{} / {} per-level series", a.level_vols.0.len(), a.level_counts.0.len()));
    }
    for l in 0..LEVELS {
        check(&format!("bid volume level {}", l), &b.level_vols.0[l], &a.level_vols.0[l], v.bid_levels[l].0)?;
        check(&format!("ask volume level {}", l), &b.level_vols.1[l], &a.level_vols.1[l], v.ask_levels[l].0)?;
        check(&format!("bid order count level {}", l), &b.level_counts.0[l], &a.level_counts.0[l], v.bid_levels[l].1)?;
        check(&format!("ask order count level {}", l), &b.level_counts.1[l], &a.level_counts.1[l], v.ask_levels[l].1)?;
    }
    check("traded volume", &b.trade_vols, &a.trade_vols, v.trade_vol)?;
    Ok(())
}

fn same_hidden_state(a: &RefModel, b: &RefModel) -> bool {
    let q = |m: &RefModel, bid: bool| -> Vec<(usize, u32, u32)> { m.queue(bid).iter().map(|r| (r.id, r.price, m.orders[r.id].vol)).collect() };
    q(a, true) == q(b, true) && q(a, false) == q(b, false) && a.trading == b.trading && a.t == b.t && a.trades.len() == b.trades.len()
}

impl EnvAbs {
    /// Replay one concrete step of a representative history on the real environment (no judgement,
    /// no model: it was judged when the state was created).
    fn replay(&self, env: &mut RealEnv, steps_done: &mut usize, st: &CStep) {
        let a = self.asset;
        match st {
            CStep::Toggle(on) => {
                if *on {
                    env.enable()
                } else {
                    env.disable()
                }
            }
            CStep::Step { cis, script, .. } => {
                for ci in cis {
                    match ci {
                        CI::New { bid, vol, price, id } => {
                            let _ = env.place(a, *bid, *vol, crate::ops::trader_for(*id), *price);
                        }
                        CI::Cancel { id } => env.cancel(a, *id),
                        CI::Modify { id, price, vol } => env.modify(a, *id, *price, *vol),
                    }
                }
                let scripts = all_index_scripts(cis.len());
                let mut rng = ScriptRng::new(scripts[*script % scripts.len()].clone(), 5);
                env.step(&mut rng);
                *steps_done += 1;
            }
        }
    }

    /// Apply and judge one action; `models` = the candidate reference states before it, replaced by
    /// the candidates that explain the observation after it. Returns the concrete step.
    fn apply(&self, env: &mut RealEnv, models: &mut Vec<RefModel>, steps_done: &mut usize, act: &EAct) -> Result<CStep, (String, String)> {
        let a = self.asset;
        let bad = |c: &str, d: String| -> Result<CStep, (String, String)> { Err((c.to_string(), d)) };
        match act {
            EAct::Enable => {
                env.enable();
                for m in models.iter_mut() {
                    m.enable();
                }
                Ok(CStep::Toggle(true))
            }
            EAct::Disable => {
                env.disable();
                for m in models.iter_mut() {
                    m.disable();
                }
                Ok(CStep::Toggle(false))
            }
            EAct::Step { batch, script } => {
                let cis = match self.concretise(&models[0], batch) {
                    Some(c) => c,
                    None => return bad("machinery/concretise", format!("{:?}", batch)),
                };
                let before = env.observe();
                // --- submissions ---
                let mut m0s: Vec<RefModel> = models.clone();
                for ci in &cis {
                    match ci {
                        CI::New { bid, vol, price, id } => {
                            let r = env.place(a, *bid, *vol, crate::ops::trader_for(*id), *price);
                            let mut mid = Ok(0);
                            for m0 in m0s.iter_mut() {
                                mid = m0.create(*bid, *vol, crate::ops::trader_for(*id), *price);
                            }
                            match (r, mid) {
                                (Ok((ra, rid)), Ok(mi)) if rid == *id && mi == *id && (ra == a || !self.multi) => {}
                                (r, mi) => return bad("submit/order-id", format!("place_order returned {:?}, expected id {} (reference {:?})", r, id, mi)),
                            }
                        }
                        CI::Cancel { id } => env.cancel(a, *id),
                        CI::Modify { id, price, vol } => env.modify(a, *id, *price, *vol),
                    }
                }
                {
                    // C10: nothing but appended New records
                    let mid = env.observe();
                    for x in 0..mid.len() {
                        let (b, o) = (&before[x], &mid[x]);
                        let n0 = b.book.orders.len();
                        let mut cmp = o.book.clone();
                        let appended: Vec<OrderRec> = cmp.orders.split_off(n0.min(cmp.orders.len()));
                        if cmp != b.book || o.l2 != b.l2 || o.rec != b.rec || o.env_trades != b.env_trades {
                            return bad(
                                "invisible/changed-by-submission",
                                format!("asset {}: submitting {:?} changed the observable state before the step: {}", x, batch, b.book.describe_diff(&cmp)),
                            );
                        }
                        let expect_new = if x == a || !self.multi { cis.iter().filter(|c| matches!(c, CI::New { .. })).count() } else { 0 };
                        if appended.len() != expect_new || appended.iter().any(|r| r.status != NEW) {
                            return bad("invisible/appended-records", format!("asset {}: {} records appended (expected {} with status New): {:?}", x, appended.len(), expect_new, appended));
                        }
                    }
                }
                // --- the step ---
                let start = models[0].t;
                let n_trades_before = models[0].trades.len();
                let scripts = all_index_scripts(cis.len());
                let mut rng = ScriptRng::new(scripts[*script % scripts.len()].clone(), 5);
                env.step(&mut rng);
                *steps_done += 1;
                if models[0].trading {
                    self.trading_steps.fetch_add(1, Ordering::Relaxed);
                }
                // --- candidates on the reference engine ---
                let after = env.observe();
                let idx = if self.multi { a } else { 0 };
                let mut matching: Vec<RefModel> = Vec::new();
                let mut first_err: Option<(String, String)> = None;
                for m0 in &m0s {
                    for perm in permutations(cis.len()) {
                        let mut mm = m0.clone();
                        mm.reset_trade_vol();
                        for (i, &k) in perm.iter().enumerate() {
                            mm.set_time(start + i as u64);
                            match &cis[k] {
                                CI::New { id, .. } => mm.place(*id),
                                CI::Cancel { id } => mm.cancel(*id),
                                CI::Modify { id, price, vol } => mm.modify(*id, *price, *vol),
                            }
                        }
                        mm.set_time(start + self.step_size);
                        match mm.compare(&after[idx].book, LEVELS) {
                            Ok(()) => {
                                if !matching.iter().any(|x| same_hidden_state(x, &mm)) {
                                    matching.push(mm);
                                }
                            }
                            Err(e) => {
                                if first_err.is_none() {
                                    first_err = Some(e);
                                }
                            }
                        }
                    }
                }
                if matching.is_empty() {
                    let (c, d) = first_err.unwrap_or(("?".into(), "?".into()));
                    return bad(
                        "sched/no-schedule-explains-step",
                        format!("batch {:?}: no processing order, replayed on the reference engine at times start+i (from any reference state consistent with the earlier steps), gives the environment's book (first candidate differs in {}: {})", batch, c, d),
                    );
                }
                if matching.len() > 1 {
                    self.multi_candidate_steps.fetch_add(1, Ordering::Relaxed);
                }
                *models = matching;
                let m = &models[0];
                // C08: clock, per-step traded volume
                if after[idx].book.time != start + self.step_size {
                    return bad("sched/clock", format!("clock {} after a step from {} with step size {}", after[idx].book.time, start, self.step_size));
                }
                // (the step's trades = the records appended during it; with more instructions than
                // time units an earlier step's last stamp can equal this step's first)
                let step_tv: u64 = m.trades[n_trades_before..].iter().map(|t| t.vol as u64).sum();
                if after[idx].book.views.trade_vol as u64 != step_tv {
                    return bad("sched/step-trade-volume", format!("traded volume after the step {} but the step's trades sum to {}", after[idx].book.views.trade_vol, step_tv));
                }
                // environment getters agree with the live book
                if after[idx].env_orders != after[idx].book.orders || after[idx].env_trades != after[idx].book.trades {
                    return bad("env-getters", "get_orders / get_trades of the environment differ from the live book's".into());
                }
                for x in 0..after.len() {
                    // C10: handed-out snapshot = live book at the end of the step
                    l2_matches_book(&after[x]).map_err(|(c, d)| (format!("invisible/{}", c), format!("asset {}: {}", x, d)))?;
                    // C11: series
                    records_grew_by_one(&before[x], &after[x], *steps_done + if self.multi { 1 } else { 0 }).map_err(|(c, d)| (format!("records/{}", c), format!("asset {}: {}", x, d)))?;
                    // C14: the idle asset did not move (apart from the shared clock and its own fresh record)
                    if self.multi && x != a {
                        let mut b2 = before[x].book.clone();
                        b2.time = after[x].book.time;
                        b2.views.trade_vol = after[x].book.views.trade_vol;
                        if b2 != after[x].book || after[x].book.views.trade_vol != 0 {
                            return bad("independence/idle-asset-changed", format!("asset {}: {}", x, b2.describe_diff(&after[x].book)));
                        }
                    }
                }
                Ok(CStep::Step { abs: batch.clone(), cis, script: *script })
            }
        }
    }

    fn fresh(&self) -> (RealEnv, RefModel, usize) {
        let (mut env, mut m, mut steps) = if self.multi {
            let env = self.make_env();
            (RealEnv::Multi(env), RefModel::new(self.step_size, 1, self.start_trading), 0)
        } else {
            (RealEnv::Single(AnyEnv::<1, LEVELS>::make(false, 0, &[1], self.step_size, self.start_trading)), RefModel::new(0, 1, self.start_trading), 0)
        };
        if self.aged > 0 {
            // `aged` bids far below the explored prices, placed in one step and cancelled in the
            // next (processing order read off the stamps, so nothing about the shuffle is assumed)
            let a = self.asset;
            let mut ids = Vec::new();
            for i in 0..self.aged {
                let id = m.create(true, 1, 7, Some(1)).unwrap();
                let r = env.place(a, true, 1, 7, Some(1)).unwrap();
                assert_eq!(r.1, id);
                ids.push(id);
                let _ = i;
            }
            for round in 0..2 {
                if round == 1 {
                    for id in &ids {
                        env.cancel(a, *id);
                    }
                }
                let start = m.t;
                let mut rng = ScriptRng::new(vec![], 3 + round as u64);
                env.step(&mut rng);
                steps += 1;
                let obs = env.observe();
                let book = &obs[if self.multi { a } else { 0 }].book;
                // replay on the model in stamp order
                let mut order: Vec<(u64, usize)> = ids.iter().map(|id| (if round == 0 { book.orders[*id].arr } else { book.orders[*id].end }, *id)).collect();
                order.sort();
                m.reset_trade_vol();
                for (t, id) in order {
                    m.set_time(t);
                    if round == 0 {
                        m.place(id);
                    } else {
                        m.cancel(id);
                    }
                }
                m.set_time(start + self.step_size);
            }
        }
        (env, m, steps)
    }
}

impl Model for EnvAbs {
    type State = EState;
    type Action = EAct;

    fn init_states(&self) -> Vec<EState> {
        let (_, m, _) = self.fresh();
        vec![EState { key: key_of(&m, false, vec![]), hist: vec![], models: vec![m] }]
    }

    fn actions(&self, s: &EState, acts: &mut Vec<EAct>) {
        if s.key.bad {
            return;
        }
        for b in self.batches(s) {
            let n = all_index_scripts(b.len()).len();
            for script in 0..n {
                acts.push(EAct::Step { batch: b.clone(), script });
            }
        }
        if self.toggles {
            acts.push(if s.key.trading { EAct::Disable } else { EAct::Enable });
        }
    }

    fn next_state(&self, last: &EState, act: EAct) -> Option<EState> {
        // caps are decided on model copies first (any candidate, any processing order: the resting
        // set after the step can depend on it, so every one must stay inside)
        if let EAct::Step { batch, .. } = &act {
            let cis = self.concretise(&last.models[0], batch)?;
            for cand in &last.models {
                let mut m0 = cand.clone();
                for ci in &cis {
                    if let CI::New { bid, vol, price, id } = ci {
                        let _ = m0.create(*bid, *vol, crate::ops::trader_for(*id), *price);
                    }
                }
                for perm in permutations(cis.len()) {
                    let mut mm = m0.clone();
                    for (i, &k) in perm.iter().enumerate() {
                        mm.set_time(cand.t + i as u64);
                        match &cis[k] {
                            CI::New { id, .. } => mm.place(*id),
                            CI::Cancel { id } => mm.cancel(*id),
                            CI::Modify { id, price, vol } => mm.modify(*id, *price, *vol),
                        }
                    }
                    let over = mm.bids.len() > self.max_rest || mm.asks.len() > self.max_rest || mm.orders.iter().any(|o| o.status == ACTIVE && o.vol > self.max_vol);
                    if over {
                        self.cut.fetch_add(1, Ordering::Relaxed);
                        return None;
                    }
                }
            }
        }
        self.transitions.fetch_add(1, Ordering::Relaxed);
        let mut hist = last.hist.clone();
        let res = util::subject(|| {
            let (mut env, _, mut steps) = self.fresh();
            for h in &last.hist {
                self.replay(&mut env, &mut steps, h);
            }
            let mut models = last.models.clone();
            let v = self.apply(&mut env, &mut models, &mut steps, &act);
            v.map(|cs| (models, cs))
        });
        let (models, cstep, fail) = match res {
            Ok(Ok((m, cs))) => (m, Some(cs), None),
            Ok(Err((c, d))) => (last.models.clone(), None, Some((c, d))),
            Err(msg) => (last.models.clone(), None, Some((format!("panic/{}", util::panic_sig(&msg)), format!("the library panicked during a valid step: {}", msg)))),
        };
        let cstep = cstep.unwrap_or_else(|| match &act {
            EAct::Enable => CStep::Toggle(true),
            EAct::Disable => CStep::Toggle(false),
            EAct::Step { batch, script } => CStep::Step { abs: batch.clone(), cis: self.concretise(&last.models[0], batch).unwrap_or_default(), script: *script },
        });
        hist.push(cstep);
        let bad = fail.is_some();
        if let Some((c, d)) = fail {
            let mut g = self.fails.lock().unwrap();
            let e = g.entry(c).or_insert((d.clone(), hist.clone()));
            if hist.len() < e.1.len() {
                *e = (d, hist.clone());
            }
        }
        let mut suffix = last.key.suffix.clone();
        if self.suffix_k > 0 {
            suffix.push(act_class(&act));
            if suffix.len() > self.suffix_k {
                suffix.remove(0);
            }
        }
        // (candidates are ordered canonically so that the key does not depend on enumeration order)
        let mut models = models;
        models.sort_by_key(|m| format!("{:?}", m.live_key()));
        Some(EState { key: key_of(&models[0], bad, suffix), hist, models })
    }

    fn properties(&self) -> Vec<Property<Self>> {
        vec![
            Property::always("every step of the real environment is explained by the reference", |_, s: &EState| !s.key.bad),
            Property::sometimes("both sides hold resting orders", |_, s: &EState| !s.key.bids.is_empty() && !s.key.asks.is_empty()),
            Property::sometimes("queue of maximal length at one price", |m: &EnvAbs, s: &EState| {
                let n = m.max_rest;
                [&s.key.bids, &s.key.asks].iter().any(|q| q.len() >= n && q[0].0 == q[n - 1].0)
            }),
        ]
    }
}

pub struct EnvClosureCfg {
    pub label: &'static str,
    pub multi: bool,
    pub asset: usize,
    pub step_size: u64,
    pub start_trading: bool,
    pub max_rest: usize,
    pub max_vol: u32,
    pub max_batch: usize,
    pub toggles: bool,
    pub prices: usize,
    /// pairs of instructions over a thinned alphabet (quick tier)
    pub thin_pairs: bool,
    /// dead orders the environment has already seen when the exploration starts
    pub aged: usize,
    /// kinds of instruction of the last k steps in the key (0 = live book only)
    pub suffix_k: usize,
}

/// Run the environment-level closure and fold the result into a property's outcome. `sig_prefix`
/// selects which clause families are reported for the property (all failures are reported, the
/// prefix only labels them).
pub fn run_env_closure(out: &mut Outcome, c: &EnvClosureCfg) {
    let t0 = std::time::Instant::now();
    let m = EnvAbs {
        multi: c.multi,
        asset: c.asset,
        step_size: c.step_size,
        start_trading: c.start_trading,
        prices: (0..c.prices as u32).map(|i| 10 + i).collect(),
        limit_vols: (1..=c.max_vol.min(2)).collect(),
        market_vols: vec![1, c.max_vol + 1],
        modify_vols: (1..=c.max_vol).collect(),
        max_rest: c.max_rest,
        max_vol: c.max_vol,
        max_batch: c.max_batch,
        toggles: c.toggles,
        same_batch_targets: true,
        thin_pairs: c.thin_pairs,
        aged: c.aged,
        suffix_k: c.suffix_k,
        transitions: Arc::new(AtomicU64::new(0)),
        cut: Arc::new(AtomicU64::new(0)),
        multi_candidate_steps: Arc::new(AtomicU64::new(0)),
        trading_steps: Arc::new(AtomicU64::new(0)),
        fails: Arc::new(Mutex::new(BTreeMap::new())),
    };
    let (tr, cut, fails, mc) = (m.transitions.clone(), m.cut.clone(), m.fails.clone(), m.multi_candidate_steps.clone());
    let ck = m.checker().threads(util::n_threads()).spawn_bfs().join();
    let unique = ck.unique_state_count();
    let depth = ck.max_depth();
    let found: Vec<&'static str> = ck.discoveries().keys().copied().collect();
    let f = fails.lock().unwrap().clone();
    let wall = t0.elapsed().as_secs_f64();
    eprintln!(
        "  E3 env closure {:<52} states={:>6} steps={:>9} cut_by_caps={:>8} depth={} fails={} {:.1}s",
        c.label,
        unique,
        tr.load(Ordering::Relaxed),
        cut.load(Ordering::Relaxed),
        depth,
        f.len(),
        wall
    );
    if f.is_empty() {
        for g in ["both sides hold resting orders", "queue of maximal length at one price"] {
            if !found.contains(&g) {
                out.machinery_errors.push(format!("vacuous environment closure '{}': never reached: {}", c.label, g));
            }
        }
    }
    out.add_u64("states", unique as u64);
    out.add_u64("transitions", tr.load(Ordering::Relaxed));
    out.add_u64("traces_validated_against_impl", tr.load(Ordering::Relaxed));
    out.push(
        "runs",
        json!({
            "engine": "envabs (stateright BFS closure through the real environment)", "label": c.label,
            "environment": if c.multi { format!("MarketEnv<2,3>, explored asset {}, the other asset holds a static book", c.asset) } else { "Env<3>".to_string() },
            "caps": {"max_resting_per_side": c.max_rest, "max_volume": c.max_vol, "grid_prices": c.prices, "max_batch": c.max_batch, "pairs_over_thinned_alphabet": c.thin_pairs},
            "step_size": c.step_size, "trading_at_construction": c.start_trading, "toggles": c.toggles, "orders_placed_and_cancelled_before_the_exploration": c.aged, "instruction_kinds_of_the_last_steps_in_the_key": c.suffix_k,
            "actions": "every batch of <= max_batch instructions (limit/market orders, cancel and modify by queue rank, cancel/modify of an order of the same batch) x every shuffle index script; trading toggles between steps",
            "unique_abstract_states": unique, "steps_executed_on_real_environment": tr.load(Ordering::Relaxed), "cut_by_caps": cut.load(Ordering::Relaxed),
            "steps_explained_by_more_than_one_schedule": mc.load(Ordering::Relaxed), "max_depth": depth, "wall_s": (wall * 100.0).round() / 100.0,
            "violating_signatures": f.keys().collect::<Vec<_>>(),
        }),
    );
    for (sig, (detail, hist)) in f {
        let sig = format!("env-closure/{}", sig);
        if sig.contains("machinery/") {
            out.machinery_errors.push(format!("{}: {}", sig, detail));
            continue;
        }
        out.fail_other(
            &sig,
            detail,
            json!({"engine": "envabs", "label": c.label, "multi_asset": c.multi, "asset": c.asset, "step_size": c.step_size, "trading_at_construction": c.start_trading,
                   "steps": hist.iter().map(|h| match h { CStep::Toggle(on) => format!("trading {}", if *on { "enabled" } else { "disabled" }), CStep::Step { abs, cis, script } => format!("step: batch {:?} = {:?}, shuffle script #{}", abs, cis, script) }).collect::<Vec<_>>()}),
        );
    }
}
