//! Environment-level properties (Env / MarketEnv): filled in below.
use crate::report::Outcome;

pub fn c12_env_part(_out: &mut Outcome, _t: bool) {}
pub fn c13_env_part(_out: &mut Outcome, _t: bool) {}
