//! Environment-level properties decided with engine `envx`: C08, C10, C11, C14 (environment
//! part), and the environment clauses of C05, C12, C13.

use crate::envx::*;
use crate::report::Outcome;
use crate::scriptrng::ScriptRng;
use crate::scriptrng::Ans;
use crate::snap::Snap;
use serde_json::json;

fn fact(n: usize) -> usize {
    (1..=n).fold(1usize, |a, b| a.saturating_mul(b)).max(1)
}

pub fn alpha_for(ticks: &[u32], rich: bool) -> EAlpha {
    EAlpha {
        prices: ticks.iter().map(|t| vec![2 * t, 3 * t]).collect(),
        limit_vols: if rich { vec![1, 2] } else { vec![2] },
        market_vols: vec![3],
        cancel: true,
        modify: true,
        badnew: false,
        offgrid_modify: false,
    }
}

#[allow(clippy::too_many_arguments)]
pub fn ecfg(label: &str, multi: bool, ticks: &[u32], step_size: u64, submits: usize, steps: usize, toggles: usize, clauses: &Clauses) -> ECfg {
    ECfg {
        label: label.to_string(),
        multi,
        ticks: ticks.to_vec(),
        start: 100,
        step_size,
        start_trading: true,
        max_submit: submits,
        max_steps: steps,
        max_toggles: toggles,
        max_batch: submits,
        full_scripts_upto: 5,
        alpha: alpha_for(ticks, false),
        clauses: clauses.clone(),
        base: vec![],
        magnitude: false,
    }
}

/// large numbers at environment level: clock beyond 2^32, step size 2^33, volumes of 1e9 / 2e9 /
/// 3e9 (steps are offered only where every schedule keeps the books below 2^32)
pub fn magnitude_cfg(label: &str, multi: bool, ticks: &[u32], submits: usize, steps: usize, clauses: &Clauses) -> ECfg {
    // (validity is decided on the candidate schedules, so they are always tracked here)
    let mut clauses = clauses.clone();
    clauses.sched = true;
    let mut c = ecfg(label, multi, ticks, 1 << 33, submits, steps, 0, &clauses);
    c.start = 1 << 40;
    c.magnitude = true;
    c.alpha.limit_vols = vec![1_000_000_000, 2_000_000_000];
    c.alpha.market_vols = vec![3_000_000_000];
    c.alpha.modify = false;
    c
}

/// prices at the top of the price axis: level walks run past 2^32-1
pub fn top_of_axis_cfg(label: &str, submits: usize, steps: usize, clauses: &Clauses) -> ECfg {
    let mut c = ecfg(label, false, &[1], 100, submits, steps, 0, clauses);
    c.alpha.prices = vec![vec![u32::MAX - 3, u32::MAX - 1]];
    c.alpha.market_vols = vec![];
    c
}

pub fn absorb_env(out: &mut Outcome, cfg: &ECfg, assets: usize, levels: usize, r: (EStats, f64), sig_prefix: &str, need_all_orders: bool) {
    let (st, wall) = r;
    eprintln!(
        "  {:<58} A={} L={:<2} nodes={:>9} steps={:>8} replays={:>10} cands<={} fails={} {:.1}s",
        cfg.label, assets, levels, st.nodes, st.steps_judged, st.plain_replays, st.max_cands, st.fails.len(), wall
    );
    out.add_u64("states", st.nodes);
    out.add_u64("transitions", st.nodes + st.plain_replays);
    out.add_u64("traces_validated_against_impl", st.leaves);
    out.add_u64("steps_judged", st.steps_judged);
    out.add_u64("plain_replays", st.plain_replays);
    let cover: serde_json::Map<String, serde_json::Value> = st
        .orders_seen
        .iter()
        .map(|(n, s)| (format!("batch_{}", n), json!({"distinct_processing_orders_observed": s.len(), "n_factorial": fact(*n)})))
        .collect();
    out.push(
        "runs",
        json!({
            "label": cfg.label, "multi_asset": cfg.multi, "assets": assets, "levels": levels, "ticks": cfg.ticks,
            "step_size": cfg.step_size, "max_submissions": cfg.max_submit, "max_steps": cfg.max_steps, "max_toggles": cfg.max_toggles,
            "base_len": cfg.base.len(), "nodes": st.nodes, "leaves": st.leaves, "steps_judged": st.steps_judged,
            "plain_replays": st.plain_replays, "max_candidate_schedules_alive": st.max_cands,
            "schedule_coverage": cover, "features": st.feats, "wall_s": (wall * 100.0).round() / 100.0,
            "violating_signatures": st.fails.keys().collect::<Vec<_>>(),
        }),
    );
    for s in st.samples.iter().take(1) {
        out.push("samples", json!(s.iter().map(act_str).collect::<Vec<_>>()));
    }
    for (sig, (detail, acts)) in &st.fails {
        out.fail_other(
            &format!("{}/{}", sig_prefix, sig),
            detail.clone(),
            json!({"engine": "envx", "config": cfg.label, "multi_asset": cfg.multi, "ticks": cfg.ticks, "levels": levels,
                   "start": cfg.start, "step_size": cfg.step_size, "start_trading": cfg.start_trading,
                   "actions": acts.iter().map(act_str).collect::<Vec<_>>()}),
        );
    }
    if st.fails.is_empty() {
        if need_all_orders {
            for (n, s) in &st.orders_seen {
                if *n >= 2 && *n <= cfg.full_scripts_upto && s.len() < fact(*n) {
                    // independent instructions distinguish all n! orders only when they are
                    // pairwise distinguishable; report, do not fail
                    out.push("notes", json!(format!("{}: batch size {}: {} of {} processing orders were distinguishable", cfg.label, n, s.len(), fact(*n))));
                }
            }
        }
        if st.steps_judged == 0 {
            out.machinery_errors.push(format!("vacuous: no step judged in '{}'", cfg.label));
        }
    }
}

pub fn c08(tier: &str) -> i32 {
    let mut out = Outcome::new("C08", tier, "model_checking");
    let t = crate::bookprops::thorough(tier);
    let cl = Clauses { sched: true, model: true, ..Default::default() };
    let s = if t { 5 } else { 4 };
    // single asset, batch size reaching exactly the step size
    let c = ecfg("Env<3>: step size == max batch", false, &[1], s as u64, s, 2, 0, &cl);
    absorb_env(&mut out, &c, 1, 3, run_env::<1, 3>(&c), "env", true);
    let mut c = ecfg("Env<3>: step size 1000, toggles", false, &[1], 1000, s - 1, 3, 1, &cl);
    c.alpha = alpha_for(&[1], true);
    absorb_env(&mut out, &c, 1, 3, run_env::<1, 3>(&c), "env", true);
    let c = ecfg("Env<10>: tick 2", false, &[2], 50, s - 1, 2, 0, &cl);
    absorb_env(&mut out, &c, 1, 10, run_env::<1, 10>(&c), "env", true);
    let mut c = ecfg("Env<3>: start time 7, step size 5", false, &[1], 5, s, 2, 0, &cl);
    c.start = 7;
    absorb_env(&mut out, &c, 1, 3, run_env::<1, 3>(&c), "env", true);
    // who owns the orders (everywhere else each order has its own trader id)
    crate::ops::set_traders(7, 1);
    let c = ecfg("Env<3>: every order from one trader", false, &[1], 50, s - 1, 2, 0, &cl);
    absorb_env(&mut out, &c, 1, 3, run_env::<1, 3>(&c), "env", true);
    crate::ops::set_traders(7, 2);
    let c = ecfg("MarketEnv<2,3>: two traders alternate", true, &[1, 2], 50, 3, 2, 0, &cl);
    absorb_env(&mut out, &c, 2, 3, run_env::<2, 3>(&c), "market-env", true);
    crate::ops::set_traders(100, 0);
    // pre-populated book (one earlier step)
    let mut c = ecfg("Env<3>: from a pre-populated two-sided book", false, &[1], 10, s - 1, 2, 0, &cl);
    c.base = vec![
        Act::Submit(Instr::New { a: 0, bid: true, vol: 2, price: Some(2) }),
        Act::Submit(Instr::New { a: 0, bid: false, vol: 2, price: Some(3) }),
        Act::Submit(Instr::New { a: 0, bid: false, vol: 1, price: Some(3) }),
        Act::Step(vec![Ans::Frac(1, 3), Ans::Frac(0, 2)]),
    ];
    absorb_env(&mut out, &c, 1, 3, run_env::<1, 3>(&c), "env", true);
    // multi asset
    let c = ecfg("MarketEnv<2,3>: step size == max batch", true, &[1, 2], (s - 1) as u64, s - 1, 2, 0, &cl);
    absorb_env(&mut out, &c, 2, 3, run_env::<2, 3>(&c), "market-env", true);
    let c = ecfg("MarketEnv<2,3>: step size 1000, toggle", true, &[1, 2], 1000, s - 1, 2, 1, &cl);
    absorb_env(&mut out, &c, 2, 3, run_env::<2, 3>(&c), "market-env", true);
    // more assets than published levels, and a single level
    let c = ecfg("MarketEnv<3,2>: more assets than levels", true, &[1, 2, 3], 100, 3, 2, 0, &cl);
    absorb_env(&mut out, &c, 3, 2, run_env::<3, 2>(&c), "market-env", true);
    let c = ecfg("MarketEnv<2,1>: one published level", true, &[1, 2], 100, 3, 2, 0, &cl);
    absorb_env(&mut out, &c, 2, 1, run_env::<2, 1>(&c), "market-env", true);
    let mut c = ecfg("MarketEnv<4,3>: four assets", true, &[1, 2, 3, 5], 100, 3, 2, 0, &cl);
    c.alpha.modify = false;
    absorb_env(&mut out, &c, 4, 3, run_env::<4, 3>(&c), "market-env", true);
    // unbounded number of steps: closure over abstract book states through the real environment
    crate::envabs::run_env_closure(
        &mut out,
        &crate::envabs::EnvClosureCfg { label: "Env<3>: every batch of <= 2 instructions x every schedule from every book state", multi: false, asset: 0, step_size: 10, start_trading: true, max_rest: 2, max_vol: 2, max_batch: 2, toggles: true, prices: 2, thin_pairs: !t, aged: 0, suffix_k: 0 },
    );
    // the same from an environment that has already seen a dozen (thorough: 300) orders come and go
    crate::envabs::run_env_closure(
        &mut out,
        &crate::envabs::EnvClosureCfg { label: "Env<3>: the same after 12 earlier orders were placed and cancelled", multi: false, asset: 0, step_size: 10, start_trading: true, max_rest: 2, max_vol: 2, max_batch: 2, toggles: false, prices: 2, thin_pairs: true, aged: if t { 300 } else { 12 }, suffix_k: 1 },
    );
    let sizes: &[usize] = if t { &[6, 12, 20, 33, 34, 48, 64, 100, 257, 1025, 4097] } else { &[6, 20, 33, 40, 64, 257, 1030] };
    large_batches::<1, 3>(&mut out, false, sizes, "env");
    large_batches::<2, 3>(&mut out, true, sizes, "market-env");
    // large numbers
    let mut c = magnitude_cfg("Env<3>: volumes of 1e9..3e9, clock beyond 2^40, step size 2^33", false, &[1], s, 3, &cl);
    if !t {
        c.alpha.market_vols = vec![];
        c.alpha.cancel = false;
    }
    absorb_env(&mut out, &c, 1, 3, run_env::<1, 3>(&c), "env", true);
    let c = magnitude_cfg("MarketEnv<2,3>: volumes of 1e9..3e9", true, &[1, 2], s - 1, 2, &cl);
    absorb_env(&mut out, &c, 2, 3, run_env::<2, 3>(&c), "market-env", true);
    out.assumptions = vec![
        "plain stand-alone OrderBook (same library) is the replay target, plus the harness's reference engine".into(),
        "batch sizes up to the step size (larger batches are C05's subject)".into(),
    ];
    out.finish()
}

pub fn c10(tier: &str) -> i32 {
    let mut out = Outcome::new("C10", tier, "model_checking");
    let t = crate::bookprops::thorough(tier);
    let cl = Clauses { invisible: true, ..Default::default() };
    let s = if t { 5 } else { 4 };
    let mut c = ecfg("Env<3>: submissions, toggles, steps", false, &[1], 100, s, 2, 1, &cl);
    c.alpha = alpha_for(&[1], true);
    absorb_env(&mut out, &c, 1, 3, run_env::<1, 3>(&c), "env", false);
    let c = ecfg("Env<10>: tick 2", false, &[2], 100, s - 1, 3, 1, &cl);
    absorb_env(&mut out, &c, 1, 10, run_env::<1, 10>(&c), "env", false);
    let c = ecfg("MarketEnv<2,3>", true, &[1, 2], 100, s - 1, 2, 1, &cl);
    absorb_env(&mut out, &c, 2, 3, run_env::<2, 3>(&c), "market-env", false);
    let mut c = ecfg("MarketEnv<2,3>: from a resting book, modify-only steps", true, &[1, 2], 100, s - 1, 2, 0, &cl);
    c.base = vec![
        Act::Submit(Instr::New { a: 0, bid: true, vol: 2, price: Some(2) }),
        Act::Submit(Instr::New { a: 1, bid: true, vol: 2, price: Some(4) }),
        Act::Submit(Instr::New { a: 1, bid: false, vol: 2, price: Some(6) }),
        Act::Step(vec![Ans::Frac(0, 3), Ans::Frac(1, 2)]),
    ];
    absorb_env(&mut out, &c, 2, 3, run_env::<2, 3>(&c), "market-env", false);
    let c = ecfg("MarketEnv<3,2>", true, &[1, 2, 3], 100, 3, 2, 0, &cl);
    absorb_env(&mut out, &c, 3, 2, run_env::<3, 2>(&c), "market-env", false);
    // more instructions in a step than the step has time units (the stamps run past the end of the step and
    // the clock is moved back): the handed-out snapshot is still the book at the END of the step
    let c = ecfg("Env<3>: step size 1, batches of up to 4", false, &[1], 1, s, 2, 0, &cl);
    absorb_env(&mut out, &c, 1, 3, run_env::<1, 3>(&c), "env", false);
    let c = ecfg("MarketEnv<2,3>: step size 1, shared batches of up to 3", true, &[1, 2], 1, 3, 2, 0, &cl);
    absorb_env(&mut out, &c, 2, 3, run_env::<2, 3>(&c), "market-env", false);
    let c = top_of_axis_cfg("Env<3>: prices just below 2^32-1 (ask level walks pass the top)", s, 3, &cl);
    absorb_env(&mut out, &c, 1, 3, run_env::<1, 3>(&c), "env", false);
    let c = top_of_axis_cfg("Env<10>: prices just below 2^32-1", s - 1, 2, &cl);
    absorb_env(&mut out, &c, 1, 10, run_env::<1, 10>(&c), "env", false);
    let c = magnitude_cfg("Env<3>: volumes of 1e9..3e9, clock beyond 2^40", false, &[1], s - 1, 3, &cl);
    absorb_env(&mut out, &c, 1, 3, run_env::<1, 3>(&c), "env", false);
    let c = magnitude_cfg("MarketEnv<2,3>: volumes of 1e9..3e9", true, &[1, 2], s - 1, 2, &cl);
    absorb_env(&mut out, &c, 2, 3, run_env::<2, 3>(&c), "market-env", false);
    scale_part(&mut out, t);
    // unbounded number of steps: three prices and unit volumes, so that a step can rearrange the
    // depth behind an unchanged touch; constructed with trading off, toggles between steps
    crate::envabs::run_env_closure(
        &mut out,
        &crate::envabs::EnvClosureCfg { label: "Env<3>: three prices, trading off at construction, toggles", multi: false, asset: 0, step_size: 100, start_trading: false, max_rest: 2, max_vol: if t { 2 } else { 1 }, max_batch: 2, toggles: true, prices: 3, thin_pairs: !t, aged: 0, suffix_k: 0 },
    );
    out.finish()
}

macro_rules! env_levels {
    ($l:expr, $f:ident, $cfg:expr) => {
        match $l {
            1 => $f::<1, 1>($cfg), 2 => $f::<1, 2>($cfg), 3 => $f::<1, 3>($cfg), 4 => $f::<1, 4>($cfg),
            5 => $f::<1, 5>($cfg), 6 => $f::<1, 6>($cfg), 7 => $f::<1, 7>($cfg), 8 => $f::<1, 8>($cfg),
            9 => $f::<1, 9>($cfg), 10 => $f::<1, 10>($cfg), 11 => $f::<1, 11>($cfg), 12 => $f::<1, 12>($cfg),
            13 => $f::<1, 13>($cfg), 14 => $f::<1, 14>($cfg), 15 => $f::<1, 15>($cfg), 16 => $f::<1, 16>($cfg),
            17 => $f::<1, 17>($cfg), 18 => $f::<1, 18>($cfg), 19 => $f::<1, 19>($cfg), 20 => $f::<1, 20>($cfg),
            21 => $f::<1, 21>($cfg), 22 => $f::<1, 22>($cfg), 23 => $f::<1, 23>($cfg), 24 => $f::<1, 24>($cfg),
            _ => panic!("levels"),
        }
    };
}

pub fn c11(tier: &str) -> i32 {
    let mut out = Outcome::new("C11", tier, "model_checking");
    let t = crate::bookprops::thorough(tier);
    let cl = Clauses { records: true, ..Default::default() };
    let s = if t { 5 } else { 4 };
    // asymmetric books are the rule: volumes 1/2, market 3, two prices per side
    let mut c = ecfg("Env<3>: up to 3 steps, all schedules", false, &[1], 100, s, if t { 4 } else { 3 }, 0, &cl);
    c.alpha = alpha_for(&[1], true);
    absorb_env(&mut out, &c, 1, 3, run_env::<1, 3>(&c), "env", false);
    let c = ecfg("Env<10>: tick 2", false, &[2], 100, s - 1, 3, 0, &cl);
    absorb_env(&mut out, &c, 1, 10, run_env::<1, 10>(&c), "env", false);
    // steps that do not lie on multiples of the step size: start time 7 with step size 5 (batches of up to four
    // instructions fit), single- and multi-asset
    let mut c = ecfg("Env<3>: start time 7, step size 5", false, &[1], 5, s, 3, 0, &cl);
    c.start = 7;
    absorb_env(&mut out, &c, 1, 3, run_env::<1, 3>(&c), "env", false);
    let mut c = ecfg("MarketEnv<2,3>: start time 1003, step size 10", true, &[1, 2], 10, 3, 2, 0, &cl);
    c.start = 1003;
    absorb_env(&mut out, &c, 2, 3, run_env::<2, 3>(&c), "market-env", false);
    // from an asymmetric resting book with three levels on one side
    let mut c = ecfg("Env<3>: from an asymmetric three-level book", false, &[1], 100, s - 1, 2, 0, &cl);
    c.base = vec![
        Act::Submit(Instr::New { a: 0, bid: true, vol: 2, price: Some(2) }),
        Act::Submit(Instr::New { a: 0, bid: true, vol: 1, price: Some(1) }),
        Act::Submit(Instr::New { a: 0, bid: false, vol: 3, price: Some(4) }),
        Act::Submit(Instr::New { a: 0, bid: false, vol: 1, price: Some(4) }),
        Act::Step(vec![Ans::Frac(2, 4), Ans::Frac(0, 3), Ans::Frac(1, 2)]),
    ];
    absorb_env(&mut out, &c, 1, 3, run_env::<1, 3>(&c), "env", false);
    // a deep asymmetric ladder populating every published level, then the usual exploration on top
    for l in [10usize, 24, 5] {
        let mut c = ecfg(&format!("Env<{}>: from a deep 12-level ladder", l), false, &[1], 100, 2, 2, 0, &cl);
        c.alpha.prices = vec![vec![30, 31]];
        c.alpha.market_vols = vec![3, 40];
        let mut base = Vec::new();
        for i in 0..12u32 {
            for k in 0..(i % 3 + 1) {
                base.push(Act::Submit(Instr::New { a: 0, bid: true, vol: i + 1 + k, price: Some(29 - i) }));
            }
            for k in 0..((i + 1) % 3 + 1) {
                base.push(Act::Submit(Instr::New { a: 0, bid: false, vol: 2 * i + 2 + k, price: Some(32 + i) }));
            }
        }
        base.push(Act::Step(vec![]));
        c.base = base;
        c.alpha.cancel = false;
        c.alpha.modify = false;
        let r = env_levels!(l, run_env, &c);
        absorb_env(&mut out, &c, 1, l, r, "env", false);
    }
    for l in 1..=24usize {
        let mut c = ecfg(&format!("Env<{}>: level sweep", l), false, &[1], 100, 3, 2, 0, &cl);
        c.alpha.cancel = false;
        let r = env_levels!(l, run_env, &c);
        absorb_env(&mut out, &c, 1, l, r, "env", false);
    }
    let c = ecfg("MarketEnv<2,3>", true, &[1, 2], 100, s - 1, 3, 0, &cl);
    absorb_env(&mut out, &c, 2, 3, run_env::<2, 3>(&c), "market-env", false);
    let c = ecfg("MarketEnv<3,2>", true, &[1, 2, 3], 100, 3, 2, 0, &cl);
    absorb_env(&mut out, &c, 3, 2, run_env::<3, 2>(&c), "market-env", false);
    let c = ecfg("MarketEnv<2,1>: one published level", true, &[1, 2], 100, 3, 2, 0, &cl);
    absorb_env(&mut out, &c, 2, 1, run_env::<2, 1>(&c), "market-env", false);
    let c = top_of_axis_cfg("Env<3>: prices just below 2^32-1", s, 3, &cl);
    absorb_env(&mut out, &c, 1, 3, run_env::<1, 3>(&c), "env", false);
    let c = top_of_axis_cfg("Env<10>: prices just below 2^32-1", s - 1, 2, &cl);
    absorb_env(&mut out, &c, 1, 10, run_env::<1, 10>(&c), "env", false);
    let c = magnitude_cfg("Env<3>: volumes of 1e9..3e9, clock beyond 2^40, step size 2^33", false, &[1], s - 1, 3, &cl);
    absorb_env(&mut out, &c, 1, 3, run_env::<1, 3>(&c), "env", false);
    scale_part(&mut out, t);
    // unbounded number of steps on one asset of a two-asset environment
    crate::envabs::run_env_closure(
        &mut out,
        &crate::envabs::EnvClosureCfg { label: "MarketEnv<2,3>: asset 1 explored, asset 0 static; every batch x schedule from every book state", multi: true, asset: 1, step_size: 50, start_trading: true, max_rest: 2, max_vol: 2, max_batch: 2, toggles: true, prices: 2, thin_pairs: !t, aged: 0, suffix_k: 0 },
    );
    out.assumptions = vec!["live values are read through get_orderbook()/get_market() right after each step".into()];
    out.finish()
}

pub fn c14(tier: &str) -> i32 {
    let mut out = Outcome::new("C14", tier, "model_checking");
    let t = crate::bookprops::thorough(tier);
    crate::marketx::c14_market_part(&mut out, t);
    let cl = Clauses { sched: true, model: true, invisible: true, records: true, ..Default::default() };
    let s = if t { 5 } else { 4 };
    // from books with several occupied levels: steps that rearrange the depth but keep touch and totals
    let mut c = ecfg("MarketEnv<2,3>: from three-level books, per-asset queries and histories vs live books", true, &[1, 2], 100, 3, 2, 0, &cl);
    c.alpha = alpha_for(&[1, 2], true);
    c.alpha.prices = vec![vec![1, 2, 3], vec![2, 4, 6]];
    c.base = vec![
        Act::Submit(Instr::New { a: 0, bid: true, vol: 2, price: Some(3) }),
        Act::Submit(Instr::New { a: 0, bid: true, vol: 2, price: Some(2) }),
        Act::Submit(Instr::New { a: 1, bid: false, vol: 1, price: Some(2) }),
        Act::Submit(Instr::New { a: 1, bid: false, vol: 2, price: Some(4) }),
        Act::Step(vec![Ans::Frac(1, 4), Ans::Frac(2, 3), Ans::Frac(0, 2)]),
    ];
    absorb_env(&mut out, &c, 2, 3, run_env::<2, 3>(&c), "market-env", true);
    let mut c = ecfg("MarketEnv<2,3>: shuffled batches across assets", true, &[1, 2], 100, s, 2, 0, &cl);
    if !t {
        // four submissions, but cancels only for orders of asset 0's first slot are dropped: keep the quick tier short
        c.alpha.market_vols = vec![];
    }
    absorb_env(&mut out, &c, 2, 3, run_env::<2, 3>(&c), "market-env", true);
    let c = ecfg("MarketEnv<3,2>: three assets", true, &[1, 2, 3], 100, s - 1, 2, 0, &cl);
    absorb_env(&mut out, &c, 3, 2, run_env::<3, 2>(&c), "market-env", true);
    // more instructions in the shared queue than the step size has time units
    // (without the recorded-series clause: "traded volume of step j = trades stamped within step j"
    // is only defined while the stamps of a step stay inside it)
    let cl_nr = Clauses { sched: true, model: true, invisible: true, ..Default::default() };
    let c = ecfg("MarketEnv<2,3>: step size 2 < shared batch", true, &[1, 2], 2, s - 1, 2, 0, &cl_nr);
    absorb_env(&mut out, &c, 2, 3, run_env::<2, 3>(&c), "market-env", true);
    // ... and so many more that the clock has to be moved BACK onto the step boundary when the step ends
    let c = ecfg("MarketEnv<2,3>: step size 1, shared batches of up to 3 (the closing clock jump goes backwards)", true, &[1, 2], 1, 3, 2, 0, &cl_nr);
    absorb_env(&mut out, &c, 2, 3, run_env::<2, 3>(&c), "market-env", true);
    let c = ecfg("MarketEnv<1,3>: one asset", true, &[3], 100, s - 1, 2, 1, &cl);
    absorb_env(&mut out, &c, 1, 3, run_env::<1, 3>(&c), "market-env", true);
    let mut c = ecfg("MarketEnv<4,3>: four assets", true, &[1, 2, 3, 5], 100, 3, 2, 0, &cl);
    c.alpha.modify = false;
    absorb_env(&mut out, &c, 4, 3, run_env::<4, 3>(&c), "market-env", true);
    let sizes: &[usize] = if t { &[12, 33, 34, 48, 70, 100, 257, 1025] } else { &[12, 34, 40, 80, 257] };
    large_batches::<2, 3>(&mut out, true, sizes, "market-env");
    large_batches::<3, 2>(&mut out, true, sizes, "market-env");
    large_batches::<4, 3>(&mut out, true, sizes, "market-env");
    // unbounded number of steps on asset 0 while asset 1 must not move
    crate::envabs::run_env_closure(
        &mut out,
        &crate::envabs::EnvClosureCfg { label: "MarketEnv<2,3>: asset 0 explored, asset 1 must not move; every batch x schedule from every book state", multi: true, asset: 0, step_size: 20, start_trading: true, max_rest: 2, max_vol: 2, max_batch: 2, toggles: true, prices: 2, thin_pairs: !t, aged: 0, suffix_k: 0 },
    );
    out.assumptions = vec!["shadow = stand-alone real OrderBooks fed only their asset's operations at the same times".into()];
    out.finish()
}

/// C05: environment steps carrying more instructions than the step size has time units
pub fn c05_env_part(out: &mut Outcome, t: bool) {
    let cl = Clauses { sched: true, model: true, ..Default::default() };
    let s = if t { 5 } else { 4 };
    // (step size 0: every step jumps back to where it started; step size 3 in the thorough tier only)
    for step_size in if t { vec![0u64, 1, 2, 3] } else { vec![0u64, 1, 2] } {
        // (thorough: five submissions for step size 1 only - 10^8 nodes, 5*10^9 plain replays per configuration)
        let s = if step_size == 1 { s } else { 4 };
        let mut c = ecfg(&format!("Env<3>: step size {} < batch, two steps", step_size), false, &[1], step_size, s, 2, 0, &cl);
        c.alpha.prices = vec![vec![2, 3]];
        absorb_env(out, &c, 1, 3, run_env::<1, 3>(&c), "env", true);
    }
    let c = ecfg("MarketEnv<2,3>: step size 1 < batch", true, &[1, 2], 1, s - 1, 2, 0, &cl);
    absorb_env(out, &c, 2, 3, run_env::<2, 3>(&c), "market-env", true);
    // unbounded number of steps with step size 1 and batches of two: the second instruction of
    // every step carries the stamp the next step starts with
    crate::envabs::run_env_closure(
        out,
        &crate::envabs::EnvClosureCfg { label: "Env<3>: step size 1 < batch of 2, every schedule, from every book state", multi: false, asset: 0, step_size: 1, start_trading: true, max_rest: if t { 3 } else { 2 }, max_vol: 2, max_batch: 2, toggles: true, prices: 2, thin_pairs: true, aged: 0, suffix_k: 0 },
    );
}

pub fn c12_env_part(out: &mut Outcome, t: bool) {
    let cl = Clauses { grid: true, sched: true, ..Default::default() };
    let s = if t { 4 } else { 3 };
    let mut c = ecfg("Env<3> tick 2: off-grid submissions and modifies", false, &[2], 100, s, 2, 0, &cl);
    c.alpha.badnew = true;
    c.alpha.offgrid_modify = true;
    absorb_env(out, &c, 1, 3, run_env::<1, 3>(&c), "env", false);
    let mut c = ecfg("MarketEnv<2,3> ticks 3,5: off-grid submissions and modifies", true, &[3, 5], 100, s, 2, 0, &cl);
    c.alpha.badnew = true;
    c.alpha.offgrid_modify = true;
    c.alpha.modify = false;
    absorb_env(out, &c, 2, 3, run_env::<2, 3>(&c), "market-env", false);
    // "market orders always can": also while trading is disabled (at construction, or switched off later)
    let mut c = ecfg("Env<3> tick 2: trading off at construction, toggles, market and off-grid submissions", false, &[2], 100, s, 2, 1, &cl);
    c.alpha.badnew = true;
    c.start_trading = false;
    absorb_env(out, &c, 1, 3, run_env::<1, 3>(&c), "env", false);
    let mut c = ecfg("MarketEnv<2,3> ticks 2,5: toggles, market and off-grid submissions", true, &[2, 5], 100, 3, 2, 1, &cl);
    c.alpha.badnew = true;
    c.alpha.modify = false;
    absorb_env(out, &c, 2, 3, run_env::<2, 3>(&c), "market-env", false);
    // the two ends of the price axis are grid prices: an asset whose only quotes sit there
    let mut c = ecfg("MarketEnv<2,3> ticks 1,5: limit prices 0 and 2^32-1", true, &[1, 5], 100, s, 2, 0, &cl);
    c.alpha.prices = vec![vec![0, u32::MAX], vec![0, u32::MAX]];
    c.alpha.modify = false;
    c.alpha.market_vols = vec![];
    absorb_env(out, &c, 2, 3, run_env::<2, 3>(&c), "market-env", false);
    let mut c = ecfg("Env<3> tick 1: limit prices 0 and 2^32-1", false, &[1], 100, s, 2, 0, &cl);
    c.alpha.prices = vec![vec![0, u32::MAX]];
    c.alpha.modify = false;
    absorb_env(out, &c, 1, 3, run_env::<1, 3>(&c), "env", false);
    // on-grid modifications too (steps in which an asset receives nothing but a modify)
    let mut c = ecfg("MarketEnv<2,3> ticks 2,3: modify-only steps, published levels vs resting orders", true, &[2, 3], 100, s, 3, 0, &cl);
    c.alpha.offgrid_modify = true;
    c.alpha.cancel = false;
    absorb_env(out, &c, 2, 3, run_env::<2, 3>(&c), "market-env", false);
}

pub fn c13_env_part(out: &mut Outcome, t: bool) {
    let cl = Clauses { notrade: true, sched: true, model: true, ..Default::default() };
    let s = if t { 4 } else { 3 };
    let mut c = ecfg("Env<3>: toggles between submissions and steps", false, &[1], 100, s, 2, 2, &cl);
    c.alpha = alpha_for(&[1], false);
    absorb_env(out, &c, 1, 3, run_env::<1, 3>(&c), "env", false);
    let mut c = ecfg("Env<3>: trading off at construction", false, &[1], 100, s, 2, 1, &cl);
    c.start_trading = false;
    absorb_env(out, &c, 1, 3, run_env::<1, 3>(&c), "env", false);
    let c = ecfg("MarketEnv<2,3>: toggles", true, &[1, 2], 100, s, 2, 1, &cl);
    absorb_env(out, &c, 2, 3, run_env::<2, 3>(&c), "market-env", false);
}


/// Batches far larger than the candidate-schedule oracle can permute: every instruction is a new
/// limit order joining ONE price level of its asset, so the schedule can be read off the arrival
/// stamps; the batch is then replayed on stand-alone books in that order at those stamps and the
/// books must agree - including the queue order, revealed by a second step of partial sweeps and
/// by draining both. Scripts: several default streams, all-zero and all-ones answers.
pub fn large_batches<const A: usize, const L: usize>(out: &mut Outcome, multi: bool, sizes: &[usize], sig_prefix: &str) {
    use crate::scriptrng::ScriptRng;
    use bourse_book::OrderBook;
    let ticks: Vec<u32> = (0..A).map(|a| [1u32, 2, 3, 5][a % 4]).collect();
    let mut execs = 0u64;
    let mut steps = 0u64;
    for &n in sizes {
        let mut scripts: Vec<(Vec<Ans>, u64)> = (0..6u64).map(|s| (vec![], 100 + s)).collect();
        scripts.push((vec![Ans::Raw(0); 2 * n], 1));
        scripts.push((vec![Ans::Raw(u64::MAX - 1); 2 * n], 1));
        for (script, seed) in &scripts {
            execs += 1;
            let replay = json!({"engine": "large_batches", "multi_asset": multi, "assets": A, "levels": L, "batch": n, "script": format!("{:?}", &script[..script.len().min(4)]), "fallback_seed": seed});
            let r = crate::util::subject(|| -> Result<(), String> {
                let start = 1_000u64;
                let step_size = 1_000_000u64;
                let mut env = AnyEnv::<A, L>::make(multi, start, &ticks, step_size, true);
                let mut plain: Vec<OrderBook<L>> = ticks.iter().map(|t| OrderBook::<L>::new(start, *t, true)).collect();
                let mut rng = ScriptRng::new(script.clone(), *seed);
                rng.budget = 10_000_000;
                let mut now = start;
                for round in 0..2 {
                    // round 0: n bids on one level per asset; round 1: one partial market sell per asset + more bids
                    let mut ids: Vec<(usize, usize)> = Vec::new();
                    let m = if round == 0 { n } else { A + n / 2 };
                    for i in 0..m {
                        let a = i % A;
                        let (bid, vol, price) = if round == 1 && i < A { (false, 4u32, None) } else { (true, 1 + (i % 3) as u32, Some(2 * ticks[a])) };
                        let id = env.place(a, bid, vol, 100 + i as u32, price).map_err(|_| "place refused")?;
                        let pid = plain[a].create_order(crate::snap::side_of(bid), vol, 100 + i as u32, price).map_err(|_| "plain create refused")?;
                        if pid != id.1 {
                            return Err(format!("ids differ: env {:?} plain {}", id, pid));
                        }
                        ids.push(id);
                    }
                    env.step(&mut rng);
                    // schedule from the arrival stamps
                    let mut sched: Vec<(u64, usize)> = Vec::new();
                    for (i, (a, id)) in ids.iter().enumerate() {
                        let t = env.book(*a).order(*id).arr_time;
                        if t < now || t >= now + m as u64 {
                            return Err(format!("round {}: instruction {} stamped {} outside [{}, {})", round, i, t, now, now + m as u64));
                        }
                        sched.push((t, i));
                    }
                    sched.sort();
                    if sched.windows(2).any(|w| w[0].0 == w[1].0) {
                        return Err(format!("round {}: two instructions share one time stamp", round));
                    }
                    for b in plain.iter_mut() {
                        b.reset_trade_vol();
                    }
                    for (t, i) in &sched {
                        for b in plain.iter_mut() {
                            b.set_time(*t);
                        }
                        let (a, id) = ids[*i];
                        plain[a].place_order(id);
                    }
                    now += step_size;
                    for b in plain.iter_mut() {
                        b.set_time(now);
                    }
                    for a in 0..A {
                        let (se, sp) = (Snap::take(env.book(a)), Snap::take(&plain[a]));
                        if se != sp {
                            return Err(format!("round {} asset {}: environment differs from the stand-alone replay in stamp order: {}", round, a, sp.describe_diff(&se)));
                        }
                    }
                }
                Ok(())
            });
            steps += 2;
            match r {
                Ok(Ok(())) => {}
                Ok(Err(e)) => out.fail_other(&format!("{}/large-batch/differs-from-standalone-replay", sig_prefix), e, replay),
                Err(m) => out.fail_other(&format!("{}/large-batch/panic/{}", sig_prefix, crate::util::panic_sig(&m)), m, replay),
            }
        }
    }
    out.add_u64("states", execs);
    out.add_u64("transitions", steps);
    out.add_u64("traces_validated_against_impl", execs);
    out.push("runs", json!({"label": format!("large batches, schedule read from arrival stamps ({} assets)", A), "batch_sizes": sizes, "scripts_per_size": 8, "executions": execs}));
}

// ---------------------------------------------------------------------------------------
// scale: environments that live for tens of thousands of steps, submission windows holding
// thousands of instructions (thresholds a bounded scenario enumeration cannot reach)
// ---------------------------------------------------------------------------------------

fn l2_live<const A: usize, const L: usize>(env: &AnyEnv<A, L>, a: usize) -> (Vec<u32>, Vec<(u32, u32)>, Vec<(u32, u32)>) {
    let b = env.book(a);
    let d = b.level_2_data();
    (vec![d.bid_price, d.ask_price, d.bid_vol, d.ask_vol], d.bid_price_levels.to_vec(), d.ask_price_levels.to_vec())
}

/// `steps` steps, each with at most one instruction (a placement behind or at the touch, or the
/// cancellation of the oldest resting order), and a read of the handed-out snapshot and of the
/// newest record after every step: both must equal the live book, every series must have one
/// entry per step. (One mutation of the book per step: counters of steps, records or mutations
/// pass 2^8, 2^12, 2^16 on the way.)
fn long_lived<const A: usize>(multi: bool, steps: usize, read_every: usize) -> Result<u64, (String, String)> {
    let bad = |c: &str, d: String| Err((c.to_string(), d));
    let ticks = vec![1u32; A];
    let mut env = AnyEnv::<A, 3>::make(multi, 0, &ticks, 10, true);
    let a = A - 1;
    let mut live: std::collections::VecDeque<usize> = Default::default();
    for k in 0..steps {
        match k % 4 {
            0 | 1 => {
                let bid = k % 8 < 4;
                let price = if bid { 100 - (k % 3) as u32 } else { 110 + (k % 3) as u32 };
                let id = env.place(a, bid, 1 + (k % 5) as u32, 7, Some(price)).map_err(|_| ("placement-refused".to_string(), format!("step {}", k)))?;
                live.push_back(id.1);
            }
            2 => {
                if let Some(id) = live.pop_front() {
                    env.cancel(a, id);
                }
            }
            _ => {}
        }
        let mut rng = ScriptRng::new(vec![], k as u64);
        env.step(&mut rng);
        if k % read_every != 0 && k + 300 < steps && !(k > 250 && k < 260) && !(k > 4090 && k < 4100) && !(k > 65_530 && k < 65_540) {
            continue;
        }
        let obs = env.observe();
        for x in 0..A {
            let (head, bl, al) = l2_live(&env, x);
            if obs[x].l2.head.to_vec() != head || obs[x].l2.bid != bl || obs[x].l2.ask != al {
                return bad(
                    "invisible/l2-snapshot-not-live-book",
                    format!("after step {} (asset {}): the environment hands out {:?} {:?} {:?}, the live book says {:?} {:?} {:?}", k + 1, x, obs[x].l2.head, obs[x].l2.bid, obs[x].l2.ask, head, bl, al),
                );
            }
            let r = &obs[x].rec;
            let n = k + 1;
            let lens = [r.prices.0.len(), r.prices.1.len(), r.volumes.0.len(), r.volumes.1.len(), r.trade_vols.len(), r.level_vols.0[2].len(), r.level_counts.1[0].len(), r.touch_vols.0.len(), r.touch_counts.1.len()];
            if lens.iter().any(|l| *l != n) {
                return bad("records/series-length", format!("after {} steps the series of asset {} have lengths {:?}", n, x, lens));
            }
            if r.prices.0[n - 1] != head[0] || r.prices.1[n - 1] != head[1] || r.volumes.0[n - 1] != head[2] || r.volumes.1[n - 1] != head[3] || r.level_vols.0[1][n - 1] != bl[1].0 || r.level_counts.1[2][n - 1] != al[2].1 {
                return bad("records/series-last-entry", format!("after step {} the newest record of asset {} differs from the live book {:?} {:?} {:?}", n, x, head, bl, al));
            }
        }
    }
    Ok(steps as u64)
}

/// `n` instructions submitted between two steps (placements that would trade, cancellations and
/// re-pricings of resting orders): nothing observable may change before the step, and the step
/// applies all of them.
fn huge_window<const A: usize>(multi: bool, n: usize) -> Result<u64, (String, String)> {
    let bad = |c: &str, d: String| Err((c.to_string(), d));
    let ticks = vec![1u32; A];
    let mut env = AnyEnv::<A, 3>::make(multi, 0, &ticks, 1_000_000, true);
    let mut resting = Vec::new();
    for a in 0..A {
        resting.push(env.place(a, false, 5, 7, Some(105)).map_err(|_| ("setup".to_string(), String::new()))?);
        resting.push(env.place(a, true, 5, 7, Some(95)).map_err(|_| ("setup".to_string(), String::new()))?);
    }
    let mut rng = ScriptRng::new(vec![], 1);
    env.step(&mut rng);
    let digest = |env: &AnyEnv<A, 3>| -> Vec<(Vec<u32>, Vec<(u32, u32)>, Vec<(u32, u32)>, usize, u32, usize)> {
        (0..A)
            .map(|x| {
                let (h, b, a) = l2_live(env, x);
                let bk = env.book(x);
                (h, b, a, bk.get_trades().len(), bk.get_trade_vol(), bk.get_orders().iter().filter(|o| o.status != bourse_book::types::Status::New).count())
            })
            .collect()
    };
    let d0 = digest(&env);
    let obs0 = env.observe();
    for k in 0..n {
        let a = k % A;
        match k % 5 {
            0 => {
                // would trade at once if applied directly
                env.place(a, true, 1, 8, Some(105)).map_err(|_| ("placement-refused".to_string(), format!("submission {}", k)))?;
            }
            1 => {
                env.place(a, false, 1, 8, None).map_err(|_| ("placement-refused".to_string(), format!("submission {}", k)))?;
            }
            2 => env.cancel(resting[2 * a].0, resting[2 * a].1),
            3 => env.modify(resting[2 * a + 1].0, resting[2 * a + 1].1, Some(105), None),
            _ => {
                env.place(a, true, 2, 8, Some(90)).map_err(|_| ("placement-refused".to_string(), format!("submission {}", k)))?;
            }
        }
        if digest(&env) != d0 {
            return bad("invisible/book-changed-by-submission", format!("submission {} of {} between two steps changed the live book: {:?} -> {:?}", k + 1, n, d0, digest(&env)));
        }
    }
    let obs1 = env.observe();
    for x in 0..A {
        if obs1[x].l2 != obs0[x].l2 || obs1[x].rec != obs0[x].rec {
            return bad("invisible/snapshot-or-records-changed-by-submission", format!("asset {} after {} submissions", x, n));
        }
    }
    let mut rng = ScriptRng::new(vec![], 2);
    env.step(&mut rng);
    for x in 0..A {
        let bk = env.book(x);
        let unplaced = bk.get_orders().iter().filter(|o| o.status == bourse_book::types::Status::New).count();
        if unplaced != 0 {
            return bad("sched/instruction-not-applied", format!("after the step {} orders of asset {} are still unplaced ({} instructions were queued)", unplaced, x, n));
        }
    }
    Ok(n as u64)
}

pub fn scale_part(out: &mut Outcome, t: bool) {
    let mut ops = 0u64;
    let mut runs = 0u64;
    let steps = if t { 140_000 } else { 70_000 };
    let mut go = |label: String, r: Result<Result<u64, (String, String)>, String>, out: &mut Outcome| {
        runs += 1;
        let replay = json!({"engine": "envprops/scale", "scenario": label});
        match r {
            Ok(Ok(k)) => ops += k,
            Ok(Err((c, d))) => out.fail_other(&format!("env-scale/{}", c), d, replay),
            Err(m) => out.fail_other(&format!("env-scale/panic/{}", crate::util::panic_sig(&m)), m, replay),
        }
    };
    go(format!("Env<3> living for {} steps, one instruction per step", steps), crate::util::subject(|| long_lived::<1>(false, steps, 997)), out);
    go(format!("MarketEnv<2,3> living for {} steps", steps), crate::util::subject(|| long_lived::<2>(true, steps, 997)), out);
    for n in [300usize, 4_100, 9_000] {
        go(format!("Env<3>: {} instructions submitted between two steps", n), crate::util::subject(|| huge_window::<1>(false, n)), out);
        go(format!("MarketEnv<2,3>: {} instructions submitted between two steps", n), crate::util::subject(|| huge_window::<2>(true, n)), out);
    }
    out.add_u64("states", runs);
    out.add_u64("transitions", ops);
    out.add_u64("traces_validated_against_impl", runs);
    out.push(
        "runs",
        json!({"engine": "envprops/scale (scripted long histories through the real environments)", "label": "environments living for tens of thousands of steps; thousands of instructions in one submission window",
               "steps": steps, "window_sizes": [300, 4100, 9000], "operations_executed": ops,
               "oracle": "handed-out snapshot and newest record = live book (read every 997 steps and around steps 2^8, 2^12, 2^16 and at the end), one entry per step in every series; no submission changes the live book, snapshot or records; the step leaves no order unplaced"}),
    );
}
