//! Exhaustive exploration of `Env<L>` / `MarketEnv<A, L>` histories with the processing
//! schedule owned by `ScriptRng` (C08, C10, C11, C14-env, C05-env, C12-env, C13-env).
//!
//! A scenario is a sequence of actions: submit an instruction, toggle trading, step under a
//! scripted generator. Every node replays its scenario on a fresh real environment. The
//! oracle for a step is the *candidate-schedule set*: all permutations of the batch whose
//! replay on plain stand-alone `OrderBook`s (and on the reference model) at times start+i
//! reproduces exactly what the environment's books show. It is independent of how the
//! generator's answers map to permutations.

use crate::refmodel::RefModel;
use crate::scriptrng::{all_index_scripts, Ans, ScriptRng};
use crate::snap::*;
use crate::util;
use bourse_book::types::Event;
use bourse_book::OrderBook;
use bourse_de::{Env, MarketEnv};
use std::collections::{BTreeMap, BTreeSet};
use std::sync::atomic::{AtomicU64, Ordering};
use std::sync::Mutex;

// ---------------------------------------------------------------------------------------
// observation types
// ---------------------------------------------------------------------------------------

#[derive(Clone, Debug, PartialEq)]
pub struct L2 {
    pub head: [u32; 4],
    pub bid: Vec<(u32, u32)>,
    pub ask: Vec<(u32, u32)>,
}

#[derive(Clone, Debug, PartialEq, Default)]
pub struct Records {
    pub prices: (Vec<u32>, Vec<u32>),
    pub volumes: (Vec<u32>, Vec<u32>),
    pub touch_vols: (Vec<u32>, Vec<u32>),
    pub touch_counts: (Vec<u32>, Vec<u32>),
    pub level_vols: (Vec<Vec<u32>>, Vec<Vec<u32>>),
    pub level_counts: (Vec<Vec<u32>>, Vec<Vec<u32>>),
    pub trade_vols: Vec<u32>,
}

#[derive(Clone, Debug, PartialEq)]
pub struct AssetObs {
    pub book: Snap,
    pub l2: L2,
    pub rec: Records,
    pub env_orders: Vec<OrderRec>,
    pub env_trades: Vec<TradeRec>,
    /// `order(id)` / `order_status(id)` of the environment for every id, as (record, status code)
    pub env_by_id: Vec<(OrderRec, u8)>,
}

pub type EnvObs = Vec<AssetObs>;

fn l2_of<const L: usize>(d: &bourse_book::types::Level2Data<L>) -> L2 {
    L2 {
        head: [d.bid_price, d.ask_price, d.bid_vol, d.ask_vol],
        bid: d.bid_price_levels.to_vec(),
        ask: d.ask_price_levels.to_vec(),
    }
}

/// (the recorded series are read through a width-agnostic conversion: a library that stores them
/// in a narrower or wider integer type must still build against the harness and be judged by value)
fn widen<T: Copy + TryInto<u64>>(v: &[T]) -> Vec<u32> {
    v.iter().map(|x| (*x).try_into().map(|y: u64| y.min(u32::MAX as u64) as u32).unwrap_or(u32::MAX)).collect()
}

fn rec_of<const L: usize, A: Copy + TryInto<u64>, B: Copy + TryInto<u64>, C: Copy + TryInto<u64>, D: Copy + TryInto<u64>, E: Copy + TryInto<u64>, F: Copy + TryInto<u64>>(
    levels: (&[Vec<A>; L], &[Vec<A>; L]),
    counts: (&[Vec<B>; L], &[Vec<B>; L]),
    tv: &[C],
    touch_v: (&Vec<D>, &Vec<D>),
    touch_c: (&Vec<E>, &Vec<E>),
    prices: &(Vec<F>, Vec<F>),
    vols: &(Vec<D>, Vec<D>),
) -> Records {
    Records {
        prices: (widen(&prices.0), widen(&prices.1)),
        volumes: (widen(&vols.0), widen(&vols.1)),
        touch_vols: (widen(touch_v.0), widen(touch_v.1)),
        touch_counts: (widen(touch_c.0), widen(touch_c.1)),
        level_vols: (levels.0.iter().map(|v| widen(v)).collect(), levels.1.iter().map(|v| widen(v)).collect()),
        level_counts: (counts.0.iter().map(|v| widen(v)).collect(), counts.1.iter().map(|v| widen(v)).collect()),
        trade_vols: widen(tv),
    }
}

// ---------------------------------------------------------------------------------------
// the two environments behind one face
// ---------------------------------------------------------------------------------------

pub enum AnyEnv<const A: usize, const L: usize> {
    Single(Env<L>),
    Multi(MarketEnv<A, L>),
}

impl<const A: usize, const L: usize> AnyEnv<A, L> {
    pub fn make(multi: bool, start: u64, ticks: &[u32], step_size: u64, trading: bool) -> Self {
        if multi {
            AnyEnv::Multi(MarketEnv::new(start, core::array::from_fn(|i| ticks[i]), step_size, trading))
        } else {
            assert!(A == 1);
            AnyEnv::Single(Env::new(start, ticks[0], step_size, trading))
        }
    }
    pub fn place(&mut self, a: usize, bid: bool, vol: u32, trader: u32, price: Option<u32>) -> Result<(usize, usize), ()> {
        match self {
            AnyEnv::Single(e) => e.place_order(side_of(bid), vol, trader, price).map(|i| (0, i)).map_err(|_| ()),
            AnyEnv::Multi(e) => e.place_order(a, side_of(bid), vol, trader, price).map_err(|_| ()),
        }
    }
    pub fn cancel(&mut self, a: usize, id: usize) {
        match self {
            AnyEnv::Single(e) => e.cancel_order(id),
            AnyEnv::Multi(e) => e.cancel_order((a, id)),
        }
    }
    pub fn modify(&mut self, a: usize, id: usize, p: Option<u32>, v: Option<u32>) {
        match self {
            AnyEnv::Single(e) => e.modify_order(id, p, v),
            AnyEnv::Multi(e) => e.modify_order((a, id), p, v),
        }
    }
    pub fn step<R: rand::RngCore>(&mut self, rng: &mut R) {
        match self {
            AnyEnv::Single(e) => e.step(rng),
            AnyEnv::Multi(e) => e.step(rng),
        }
    }
    pub fn enable(&mut self) {
        match self {
            AnyEnv::Single(e) => e.enable_trading(),
            AnyEnv::Multi(e) => e.enable_trading(),
        }
    }
    pub fn disable(&mut self) {
        match self {
            AnyEnv::Single(e) => e.disable_trading(),
            AnyEnv::Multi(e) => e.disable_trading(),
        }
    }
    pub fn book(&self, a: usize) -> &OrderBook<L> {
        match self {
            AnyEnv::Single(e) => e.get_orderbook(),
            AnyEnv::Multi(e) => e.get_market().get_order_book(a),
        }
    }
    pub fn observe(&self) -> EnvObs {
        (0..A)
            .map(|a| match self {
                AnyEnv::Single(e) => AssetObs {
                    book: Snap::take(e.get_orderbook()),
                    l2: l2_of(e.level_2_data()),
                    rec: rec_of(
                        (&e.get_level_2_data_history().volumes_at_levels.0, &e.get_level_2_data_history().volumes_at_levels.1),
                        (&e.get_level_2_data_history().orders_at_levels.0, &e.get_level_2_data_history().orders_at_levels.1),
                        e.get_trade_vols(),
                        e.get_touch_volumes(),
                        e.get_touch_order_counts(),
                        e.get_prices(),
                        e.get_volumes(),
                    ),
                    env_orders: e.get_orders().into_iter().map(OrderRec::of).collect(),
                    env_trades: e.get_trades().iter().map(TradeRec::of).collect(),
                    env_by_id: (0..e.get_orders().len()).map(|i| (OrderRec::of(e.order(i)), st_code(e.order_status(i)))).collect(),
                },
                AnyEnv::Multi(e) => AssetObs {
                    book: Snap::take(e.get_market().get_order_book(a)),
                    l2: l2_of(&e.level_2_data()[a]),
                    rec: rec_of(
                        (&e.get_level_2_data_history(a).volumes_at_levels.0, &e.get_level_2_data_history(a).volumes_at_levels.1),
                        (&e.get_level_2_data_history(a).orders_at_levels.0, &e.get_level_2_data_history(a).orders_at_levels.1),
                        e.get_trade_vols(a),
                        e.get_touch_volumes(a),
                        e.get_touch_order_counts(a),
                        e.get_prices(a),
                        e.get_volumes(a),
                    ),
                    env_orders: e.get_orders(a).into_iter().map(OrderRec::of).collect(),
                    env_trades: e.get_trades(a).iter().map(TradeRec::of).collect(),
                    env_by_id: (0..e.get_orders(a).len()).map(|i| (OrderRec::of(e.order((a, i))), st_code(e.order_status((a, i))))).collect(),
                },
            })
            .collect()
    }
}

// ---------------------------------------------------------------------------------------
// scenarios
// ---------------------------------------------------------------------------------------

#[derive(Clone, Debug, PartialEq, Eq, Hash)]
pub enum Instr {
    New { a: usize, bid: bool, vol: u32, price: Option<u32> },
    Cancel { a: usize, id: usize },
    Modify { a: usize, id: usize, price: Option<u32>, vol: Option<u32> },
    /// new order with an off-grid price: must be refused and leave no trace
    BadNew { a: usize, bid: bool, vol: u32, price: u32 },
}

#[derive(Clone, Debug, PartialEq, Eq, Hash)]
pub enum Act {
    Submit(Instr),
    Enable,
    Disable,
    Step(Vec<Ans>),
}

pub fn act_str(a: &Act) -> String {
    match a {
        Act::Step(s) => format!(
            "Step(script={:?})",
            s.iter()
                .map(|x| match x {
                    Ans::Frac(k, r) => format!("{}/{}", k, r),
                    Ans::Raw(v) => format!("raw:{:#x}", v),
                })
                .collect::<Vec<_>>()
        ),
        other => format!("{:?}", other),
    }
}

/// What a plain stand-alone book is asked to do (the replay target of the oracle)
#[derive(Clone, Debug, PartialEq, Eq, Hash)]
pub enum POp {
    Create { a: usize, bid: bool, vol: u32, trader: u32, price: Option<u32> },
    Time(u64),
    ResetTv,
    New { a: usize, id: usize },
    Cancel { a: usize, id: usize },
    Modify { a: usize, id: usize, price: Option<u32>, vol: Option<u32> },
    Enable,
    Disable,
}

pub struct Plain<const L: usize> {
    pub books: Vec<OrderBook<L>>,
    pub models: Vec<RefModel>,
}

impl<const L: usize> Plain<L> {
    pub fn new(start: u64, ticks: &[u32], trading: bool) -> Self {
        Plain {
            books: ticks.iter().map(|t| OrderBook::<L>::new(start, *t, trading)).collect(),
            models: ticks.iter().map(|t| RefModel::new(start, *t, trading)).collect(),
        }
    }
    pub fn apply(&mut self, op: &POp) {
        match op {
            POp::Create { a, bid, vol, trader, price } => {
                let _ = self.books[*a].create_order(side_of(*bid), *vol, *trader, *price);
                let _ = self.models[*a].create(*bid, *vol, *trader, *price);
            }
            POp::Time(t) => {
                for b in self.books.iter_mut() {
                    b.set_time(*t);
                }
                for m in self.models.iter_mut() {
                    m.set_time(*t);
                }
            }
            POp::ResetTv => {
                for b in self.books.iter_mut() {
                    b.reset_trade_vol();
                }
                for m in self.models.iter_mut() {
                    m.reset_trade_vol();
                }
            }
            POp::New { a, id } => {
                self.books[*a].process_event(Event::New { order_id: *id });
                self.models[*a].place(*id);
            }
            POp::Cancel { a, id } => {
                self.books[*a].process_event(Event::Cancellation { order_id: *id });
                self.models[*a].cancel(*id);
            }
            POp::Modify { a, id, price, vol } => {
                self.books[*a].process_event(Event::Modify { order_id: *id, new_price: *price, new_vol: *vol });
                // the reference model mirrors the documented rule that off-grid prices are refused
                let tick = self.models[*a].tick;
                if price.map_or(true, |p| p % tick == 0) {
                    self.models[*a].modify(*id, *price, *vol);
                }
            }
            POp::Enable => {
                for b in self.books.iter_mut() {
                    b.enable_trading();
                }
                for m in self.models.iter_mut() {
                    m.enable();
                }
            }
            POp::Disable => {
                for b in self.books.iter_mut() {
                    b.disable_trading();
                }
                for m in self.models.iter_mut() {
                    m.disable();
                }
            }
        }
    }
}

/// the reference-model half of `Plain::apply` (used to decide validity of large-volume scenarios)
fn apply_models_only(models: &mut [RefModel], op: &POp) {
    match op {
        POp::Create { a, bid, vol, trader, price } => {
            let _ = models[*a].create(*bid, *vol, *trader, *price);
        }
        POp::Time(t) => models.iter_mut().for_each(|m| m.set_time(*t)),
        POp::ResetTv => models.iter_mut().for_each(|m| m.reset_trade_vol()),
        POp::New { a, id } => models[*a].place(*id),
        POp::Cancel { a, id } => models[*a].cancel(*id),
        POp::Modify { a, id, price, vol } => {
            let tick = models[*a].tick;
            if price.map_or(true, |p| p % tick == 0) {
                models[*a].modify(*id, *price, *vol);
            }
        }
        POp::Enable => models.iter_mut().for_each(|m| m.enable()),
        POp::Disable => models.iter_mut().for_each(|m| m.disable()),
    }
}

/// With volumes near 2^31 a scenario is only valid (per-side resting volume and per-step traded
/// volume < 2^32) if that holds under EVERY schedule of the batch: decided on the 64-bit
/// reference model before a step is offered.
fn batch_valid<const A: usize>(cfg: &ECfg, node: &ENode) -> bool {
    let cap = u32::MAX as u64;
    let batch = &node.batch;
    let nb = batch.len();
    let mut new_ids: BTreeMap<usize, (usize, usize)> = BTreeMap::new();
    {
        let mut created: Vec<usize> = vec![0; A];
        let total_new: Vec<usize> = (0..A).map(|a| batch.iter().filter(|i| matches!(i, Instr::New { a: ia, .. } if *ia == a)).count()).collect();
        for (idx, i) in batch.iter().enumerate() {
            if let Instr::New { a, .. } = i {
                let first = node.n_orders[*a] - total_new[*a];
                new_ids.insert(idx, (*a, first + created[*a]));
                created[*a] += 1;
            }
        }
    }
    for c in &node.cands {
        let mut base: Vec<RefModel> = cfg.ticks.iter().map(|t| RefModel::new(cfg.start, *t, cfg.start_trading)).collect();
        for op in c {
            apply_models_only(&mut base, op);
        }
        for pi in permutations(nb) {
            let mut ms = base.clone();
            apply_models_only(&mut ms, &POp::ResetTv);
            for (i, &bi) in pi.iter().enumerate() {
                apply_models_only(&mut ms, &POp::Time(node.time + i as u64));
                if let Some(p) = instr_to_pop(&batch[bi], &new_ids, bi) {
                    apply_models_only(&mut ms, &p);
                }
                if ms.iter().any(|m| m.side_vol(true) > cap || m.side_vol(false) > cap || m.trade_vol > cap) {
                    return false;
                }
            }
        }
    }
    true
}

#[derive(Clone, Debug)]
pub struct EAlpha {
    /// per asset: grid prices offered
    pub prices: Vec<Vec<u32>>,
    pub limit_vols: Vec<u32>,
    pub market_vols: Vec<u32>,
    pub cancel: bool,
    pub modify: bool,
    pub badnew: bool,
    pub offgrid_modify: bool,
}

#[derive(Clone, Debug, Default)]
pub struct Clauses {
    /// C08: candidate-schedule oracle, clock, per-step traded volume, queue emptied
    pub sched: bool,
    /// compare also with the reference model (C05-env / C13-env)
    pub model: bool,
    /// C10
    pub invisible: bool,
    /// C11
    pub records: bool,
    /// C12-env
    pub grid: bool,
    /// C13-env
    pub notrade: bool,
}

#[derive(Clone, Debug)]
pub struct ECfg {
    pub label: String,
    pub multi: bool,
    pub ticks: Vec<u32>,
    pub start: u64,
    pub step_size: u64,
    pub start_trading: bool,
    pub max_submit: usize,
    pub max_steps: usize,
    pub max_toggles: usize,
    pub max_batch: usize,
    /// if set, only these (lexicographically first) many scripts per batch are tried beyond batch size `full_scripts_upto`
    pub full_scripts_upto: usize,
    pub alpha: EAlpha,
    pub clauses: Clauses,
    /// a scripted prefix of actions executed (and judged) before the exploration
    pub base: Vec<Act>,
    /// volumes near 2^31: steps are offered only for batches that are valid under every schedule
    pub magnitude: bool,
}

#[derive(Clone)]
struct ENode {
    acts: Vec<Act>,
    cands: Vec<Vec<POp>>,
    batch: Vec<Instr>,
    n_orders: Vec<usize>,
    submits: usize,
    steps: usize,
    toggles: usize,
    b_submits: usize,
    b_steps: usize,
    b_toggles: usize,
    trading: bool,
    obs: EnvObs,
    /// what the harness read from the live books at the end of each step
    live_at_step: Vec<Vec<(L2, u64, u64)>>, // per step, per asset: (live l2, step start, trade log length at step start)
    time: u64,
}

#[derive(Default)]
pub struct EStats {
    pub nodes: u64,
    pub steps_judged: u64,
    pub leaves: u64,
    pub plain_replays: u64,
    pub fails: BTreeMap<String, (String, Vec<Act>)>,
    pub orders_seen: BTreeMap<usize, BTreeSet<Vec<usize>>>,
    pub feats: BTreeMap<String, u64>,
    pub samples: Vec<Vec<Act>>,
    pub max_cands: usize,
}

impl EStats {
    fn fail(&mut self, sig: String, detail: String, acts: &[Act]) {
        match self.fails.get_mut(&sig) {
            None => {
                self.fails.insert(sig, (detail, acts.to_vec()));
            }
            Some(e) => {
                if acts.len() < e.1.len() {
                    *e = (detail, acts.to_vec());
                }
            }
        }
    }
    fn feat(&mut self, k: &str) {
        *self.feats.entry(k.to_string()).or_insert(0) += 1;
    }
    fn merge(&mut self, o: EStats) {
        self.nodes += o.nodes;
        self.steps_judged += o.steps_judged;
        self.leaves += o.leaves;
        self.plain_replays += o.plain_replays;
        for (k, v) in o.fails {
            match self.fails.get_mut(&k) {
                None => {
                    self.fails.insert(k, v);
                }
                Some(e) => {
                    if v.1.len() < e.1.len() {
                        *e = v;
                    }
                }
            }
        }
        for (n, s) in o.orders_seen {
            self.orders_seen.entry(n).or_default().extend(s);
        }
        for (k, v) in o.feats {
            *self.feats.entry(k).or_insert(0) += v;
        }
        if self.samples.len() < 4 {
            self.samples.extend(o.samples.into_iter().take(1));
        }
        self.max_cands = self.max_cands.max(o.max_cands);
    }
}

fn build_env<const A: usize, const L: usize>(cfg: &ECfg, acts: &[Act]) -> AnyEnv<A, L> {
    let mut env = AnyEnv::<A, L>::make(cfg.multi, cfg.start, &cfg.ticks, cfg.step_size, cfg.start_trading);
    let mut n: Vec<usize> = vec![0; A];
    for (i, a) in acts.iter().enumerate() {
        apply_act(&mut env, a, &mut n, i as u64);
    }
    env
}

/// returns Some(result of place) for New/BadNew submissions
fn apply_act<const A: usize, const L: usize>(env: &mut AnyEnv<A, L>, act: &Act, n_orders: &mut [usize], salt: u64) -> Option<Result<(usize, usize), ()>> {
    match act {
        Act::Submit(Instr::New { a, bid, vol, price }) => {
            let r = env.place(*a, *bid, *vol, crate::ops::trader_for(n_orders[*a]), *price);
            if r.is_ok() {
                n_orders[*a] += 1;
            }
            Some(r)
        }
        Act::Submit(Instr::BadNew { a, bid, vol, price }) => {
            let r = env.place(*a, *bid, *vol, crate::ops::trader_for(n_orders[*a]), Some(*price));
            if r.is_ok() {
                n_orders[*a] += 1;
            }
            Some(r)
        }
        Act::Submit(Instr::Cancel { a, id }) => {
            env.cancel(*a, *id);
            None
        }
        Act::Submit(Instr::Modify { a, id, price, vol }) => {
            env.modify(*a, *id, *price, *vol);
            None
        }
        Act::Enable => {
            env.enable();
            None
        }
        Act::Disable => {
            env.disable();
            None
        }
        Act::Step(script) => {
            let mut rng = ScriptRng::new(script.clone(), 0xC0FFEE ^ salt);
            env.step(&mut rng);
            None
        }
    }
}

fn plain_obs<const L: usize>(cfg: &ECfg, ops: &[POp]) -> Plain<L> {
    let mut p = Plain::<L>::new(cfg.start, &cfg.ticks, cfg.start_trading);
    for o in ops {
        p.apply(o);
    }
    p
}

fn permutations(n: usize) -> Vec<Vec<usize>> {
    fn rec(cur: &mut Vec<usize>, used: &mut Vec<bool>, n: usize, out: &mut Vec<Vec<usize>>) {
        if cur.len() == n {
            out.push(cur.clone());
            return;
        }
        for i in 0..n {
            if !used[i] {
                used[i] = true;
                cur.push(i);
                rec(cur, used, n, out);
                cur.pop();
                used[i] = false;
            }
        }
    }
    let mut out = Vec::new();
    rec(&mut Vec::new(), &mut vec![false; n], n, &mut out);
    out
}

fn instr_to_pop(i: &Instr, new_ids: &BTreeMap<usize, (usize, usize)>, idx: usize) -> Option<POp> {
    match i {
        Instr::New { .. } => {
            let (a, id) = new_ids[&idx];
            Some(POp::New { a, id })
        }
        Instr::Cancel { a, id } => Some(POp::Cancel { a: *a, id: *id }),
        Instr::Modify { a, id, price, vol } => Some(POp::Modify { a: *a, id: *id, price: *price, vol: *vol }),
        Instr::BadNew { .. } => None,
    }
}

fn submissions<const A: usize>(cfg: &ECfg, node: &ENode) -> Vec<Instr> {
    let mut v = Vec::new();
    let al = &cfg.alpha;
    for a in 0..A {
        for bid in [true, false] {
            for &p in &al.prices[a] {
                for &vol in &al.limit_vols {
                    v.push(Instr::New { a, bid, vol, price: Some(p) });
                }
            }
            for &vol in &al.market_vols {
                v.push(Instr::New { a, bid, vol, price: None });
            }
        }
        let n = node.n_orders[a];
        for id in 0..n {
            if al.cancel {
                v.push(Instr::Cancel { a, id });
            }
            if al.modify {
                let ps = &al.prices[a];
                v.push(Instr::Modify { a, id, price: Some(ps[ps.len() - 1]), vol: None });
                v.push(Instr::Modify { a, id, price: None, vol: Some(1) });
                v.push(Instr::Modify { a, id, price: Some(ps[0]), vol: Some(3) });
            }
            if al.offgrid_modify && cfg.ticks[a] > 1 {
                v.push(Instr::Modify { a, id, price: Some(al.prices[a][0] + 1), vol: None });
            }
        }
        if al.badnew && cfg.ticks[a] > 1 {
            v.push(Instr::BadNew { a, bid: true, vol: 1, price: al.prices[a][0] + 1 });
            v.push(Instr::BadNew { a, bid: false, vol: 2, price: al.prices[a][1] - 1 });
        }
    }
    v
}

fn enabled<const A: usize>(cfg: &ECfg, node: &ENode) -> Vec<Act> {
    if let Some(a) = FORCED.with(|f| f.borrow().clone()) {
        return vec![a];
    }
    let mut v = Vec::new();
    if node.submits - node.b_submits < cfg.max_submit && node.batch.len() < cfg.max_batch {
        for i in submissions::<A>(cfg, node) {
            v.push(Act::Submit(i));
        }
    }
    if node.toggles - node.b_toggles < cfg.max_toggles {
        v.push(if node.trading { Act::Disable } else { Act::Enable });
    }
    if node.steps - node.b_steps < cfg.max_steps && (!cfg.magnitude || batch_valid::<A>(cfg, node)) {
        let n = node.batch.iter().filter(|i| !matches!(i, Instr::BadNew { .. })).count();
        let scripts = all_index_scripts(n);
        if n <= cfg.full_scripts_upto {
            for s in scripts {
                v.push(Act::Step(s));
            }
        } else {
            // deviation-bounded: every script with at most one non-zero answer
            for s in scripts {
                let nz = s.iter().filter(|a| !matches!(a, Ans::Frac(0, _))).count();
                if nz <= 1 {
                    v.push(Act::Step(s));
                }
            }
        }
    }
    v
}

/// processing order (indices into the batch) recovered from a candidate history's last step
fn diff_l2(a: &L2, b: &L2) -> String {
    format!("{:?} vs {:?}", a, b)
}

fn judge_submit<const A: usize>(cfg: &ECfg, st: &mut EStats, acts: &[Act], instr: &Instr, ret: &Option<Result<(usize, usize), ()>>, before: &EnvObs, after: &EnvObs, n_before: &[usize]) -> bool {
    let mut ok = true;
    let cl = &cfg.clauses;
    match instr {
        Instr::New { a, price, .. } => {
            let want = Ok((if cfg.multi { *a } else { 0 }, n_before[*a]));
            let on_grid = price.map_or(true, |p| p % cfg.ticks[*a] == 0);
            if on_grid && ret.as_ref() != Some(&want) && (cl.sched || cl.grid) {
                st.fail("submit/returned-id".into(), format!("{:?} returned {:?}, expected {:?}", instr, ret, want), acts);
                ok = false;
            }
        }
        Instr::BadNew { .. } => {
            if cl.grid {
                if ret.as_ref() != Some(&Err(())) {
                    st.fail("grid/off-grid-submission-accepted".into(), format!("{:?} returned {:?}", instr, ret), acts);
                    ok = false;
                }
                if before != after {
                    st.fail("grid/rejected-submission-left-trace".into(), format!("{:?} changed the environment", instr), acts);
                    ok = false;
                }
            }
        }
        _ => {}
    }
    if cl.invisible {
        for a in 0..A {
            let (b, af) = (&before[a], &after[a]);
            let appended = matches!(instr, Instr::New { a: ia, .. } if *ia == a) && matches!(ret, Some(Ok(_)));
            if af.rec != b.rec {
                st.fail("invisible/records-changed-by-submission".into(), format!("{:?} changed recorded histories of asset {}", instr, a), acts);
                ok = false;
            }
            if af.l2 != b.l2 {
                st.fail("invisible/l2-snapshot-changed-by-submission".into(), format!("{:?}: {}", instr, diff_l2(&b.l2, &af.l2)), acts);
                ok = false;
            }
            if af.book.trades != b.book.trades || af.book.views != b.book.views || af.book.time != b.book.time {
                st.fail(
                    "invisible/book-changed-by-submission".into(),
                    format!("{:?} changed live book of asset {}: {}", instr, a, b.book.describe_diff(&af.book)),
                    acts,
                );
                ok = false;
            }
            let nb = b.book.orders.len();
            let want_len = nb + if appended { 1 } else { 0 };
            if af.book.orders.len() != want_len || af.book.orders[..nb] != b.book.orders[..] {
                st.fail(
                    "invisible/orders-changed-by-submission".into(),
                    format!("{:?}: asset {} orders {:?} -> {:?}", instr, a, b.book.orders, af.book.orders),
                    acts,
                );
                ok = false;
            } else if appended && af.book.orders[nb].status != NEW {
                st.fail(
                    "invisible/new-order-not-new".into(),
                    format!("{:?}: appended order is {:?}", instr, af.book.orders[nb]),
                    acts,
                );
                ok = false;
            }
            if af.env_orders != af.book.orders || af.env_trades != af.book.trades {
                st.fail("invisible/env-getters-differ-from-book".into(), format!("asset {}", a), acts);
                ok = false;
            }
        }
    }
    ok
}

fn check_l2_is_live<const A: usize>(st: &mut EStats, acts: &[Act], obs: &EnvObs, live: &[L2], when: &str) -> bool {
    let mut ok = true;
    for a in 0..A {
        if obs[a].l2 != live[a] {
            st.fail(
                format!("invisible/l2-snapshot-not-live-book-at-last-step/{}", when),
                format!("asset {}: level_2_data() {:?} but live book at the end of the last step {:?}", a, obs[a].l2, live[a]),
                acts,
            );
            ok = false;
        }
    }
    ok
}

fn live_l2<const A: usize, const L: usize>(env: &AnyEnv<A, L>) -> Vec<L2> {
    (0..A).map(|a| l2_of(&env.book(a).level_2_data())).collect()
}

#[allow(clippy::too_many_arguments)]
fn visit<const A: usize, const L: usize>(cfg: &ECfg, st: &mut EStats, node: &ENode, depth_left: usize, spill_depth: Option<usize>, spill: &mut Vec<ENode>) {
    let acts_enabled = enabled::<A>(cfg, node);
    if depth_left == 0 || acts_enabled.is_empty() {
        st.leaves += 1;
        if st.samples.len() < 2 && st.leaves % 4099 == 1 {
            st.samples.push(node.acts.clone());
        }
        return;
    }
    let cl = &cfg.clauses;
    for act in acts_enabled {
        let mut acts = node.acts.clone();
        acts.push(act.clone());
        st.nodes += 1;
        let salt = (acts.len() - 1) as u64;
        // ---- the real environment ----
        let real = util::subject(|| {
            let mut env = build_env::<A, L>(cfg, &node.acts);
            let mut n = node.n_orders.clone();
            let ret = apply_act(&mut env, &act, &mut n, salt);
            let obs = env.observe();
            let live = live_l2(&env);
            (ret, obs, live, n)
        });
        let (ret, obs, live, n_after) = match real {
            Ok(x) => x,
            Err(msg) => {
                st.fail(format!("panic/{}", util::panic_sig(&msg)), format!("the library panicked: {}", msg), &acts);
                continue;
            }
        };
        let mut child = node.clone();
        child.acts = acts.clone();
        child.n_orders = n_after;
        let mut ok = true;
        // the environment's own getters are views of the book: by list, by id, by status
        for a in 0..A {
            let o = &obs[a];
            let by_id_ok = o.env_by_id.len() == o.book.orders.len() && o.env_by_id.iter().zip(o.book.orders.iter()).all(|((r, st), b)| r == b && *st == b.status);
            if o.env_orders != o.book.orders || o.env_trades != o.book.trades || !by_id_ok {
                st.fail(
                    "getters/environment-getters-differ-from-book".into(),
                    format!("asset {}: get_orders / get_trades / order(id) / order_status(id) of the environment do not match its book: by id {:?} vs book {:?}", a, o.env_by_id, o.book.orders),
                    &acts,
                );
                ok = false;
            }
        }
        match &act {
            Act::Submit(instr) => {
                child.submits += 1;
                ok &= judge_submit::<A>(cfg, st, &acts, instr, &ret, &node.obs, &obs, &node.n_orders);
                match instr {
                    Instr::New { a, bid, vol, price } => {
                        if ret.is_some_and(|r| r.is_ok()) {
                            let pop = POp::Create { a: *a, bid: *bid, vol: *vol, trader: crate::ops::trader_for(node.n_orders[*a]), price: *price };
                            for c in child.cands.iter_mut() {
                                c.push(pop.clone());
                            }
                            child.batch.push(instr.clone());
                        }
                    }
                    Instr::BadNew { .. } => {}
                    other => child.batch.push(other.clone()),
                }
                st.feat("submit");
            }
            Act::Enable | Act::Disable => {
                child.toggles += 1;
                child.trading = matches!(act, Act::Enable);
                let pop = if child.trading { POp::Enable } else { POp::Disable };
                for c in child.cands.iter_mut() {
                    c.push(pop.clone());
                }
                if cl.invisible || cl.notrade {
                    if obs != node.obs {
                        st.fail("toggle-not-noop".into(), format!("{:?} changed the environment's observables", act), &acts);
                        ok = false;
                    }
                }
                st.feat("toggle");
            }
            Act::Step(_) => {
                child.steps += 1;
                st.steps_judged += 1;
                let start = node.time;
                let end = start + cfg.step_size;
                child.time = end;
                let batch = &node.batch;
                let nb = batch.len();
                // ids of the orders created by the New instructions of this batch: the k-th New of asset a
                // got local id (orders of a before the batch) + k
                let mut new_ids: BTreeMap<usize, (usize, usize)> = BTreeMap::new();
                {
                    let mut created: Vec<usize> = vec![0; A];
                    let total_new: Vec<usize> = (0..A)
                        .map(|a| batch.iter().filter(|i| matches!(i, Instr::New { a: ia, .. } if *ia == a)).count())
                        .collect();
                    for (idx, i) in batch.iter().enumerate() {
                        if let Instr::New { a, .. } = i {
                            let first = node.n_orders[*a] - total_new[*a];
                            new_ids.insert(idx, (*a, first + created[*a]));
                            created[*a] += 1;
                        }
                    }
                }
                // ---- candidate schedules ----
                let perms = if cl.sched || cl.model { permutations(nb) } else { vec![] };
                let mut next_cands: Vec<Vec<POp>> = Vec::new();
                let mut seen_states: BTreeSet<u64> = BTreeSet::new();
                let mut observed_orders: BTreeSet<Vec<usize>> = BTreeSet::new();
                let mut model_mismatch: Option<String> = None;
                for c in &node.cands {
                    for pi in &perms {
                        let mut ops = c.clone();
                        ops.push(POp::ResetTv);
                        for (i, &bi) in pi.iter().enumerate() {
                            ops.push(POp::Time(start + i as u64));
                            if let Some(p) = instr_to_pop(&batch[bi], &new_ids, bi) {
                                ops.push(p);
                            }
                        }
                        ops.push(POp::Time(end));
                        st.plain_replays += 1;
                        let r = util::subject(|| {
                            let p = plain_obs::<L>(cfg, &ops);
                            let snaps: Vec<Snap> = p.books.iter().map(Snap::take).collect();
                            let same = (0..A).all(|a| snaps[a] == obs[a].book);
                            let mut mm = None;
                            if same && cl.model {
                                for a in 0..A {
                                    if let Err((c, d)) = p.models[a].compare(&snaps[a], L) {
                                        mm = Some(format!("asset {}: {}: {}", a, c, d));
                                    }
                                }
                                if mm.is_none() {
                                    // sweep both
                                    let mut p = p;
                                    for a in 0..A {
                                        let (b, m) = (&mut p.books[a], &mut p.models[a]);
                                        if let Err((c, d)) = crate::monitors::drain_probe(b, m) {
                                            mm = Some(format!("asset {}: {}: {}", a, c, d));
                                        }
                                    }
                                }
                            }
                            (same, mm, snaps)
                        });
                        if let Ok((true, mm, snaps)) = r {
                            observed_orders.insert(pi.clone());
                            if let Some(m) = mm {
                                model_mismatch = Some(m);
                            }
                            // dedup candidates by the complete observable state + serialised books
                            let key = util::fnv_of(&snaps.iter().map(|s| s.digest()).collect::<Vec<_>>());
                            let hidden = {
                                let p = plain_obs::<L>(cfg, &ops);
                                let js: Vec<String> = p.books.iter().map(|b| serde_json::to_string(b).unwrap_or_default()).collect();
                                util::fnv_of(&js)
                            };
                            if seen_states.insert(key ^ hidden.rotate_left(17)) {
                                next_cands.push(ops);
                            }
                        }
                    }
                }
                st.max_cands = st.max_cands.max(next_cands.len());
                if nb >= 2 {
                    st.feat("step-with-batch>=2");
                }
                if obs.iter().any(|o| o.book.trades.len() > node.obs.iter().map(|x| x.book.trades.len()).max().unwrap_or(0)) {
                    st.feat("step-with-trades");
                }
                if nb as u64 > cfg.step_size {
                    st.feat("batch-larger-than-step");
                }
                if cl.sched {
                    if next_cands.is_empty() {
                        st.fail(
                            "sched/no-schedule-explains-step".into(),
                            format!(
                                "after the step no permutation of the {} queued instructions, replayed on plain order books at times start+i, reproduces the environment's books; batch {:?}; observed asset-0 orders {:?} trades {:?} time {}",
                                nb, batch, obs[0].book.orders, obs[0].book.trades, obs[0].book.time
                            ),
                            &acts,
                        );
                        ok = false;
                    }
                    for a in 0..A {
                        if obs[a].book.time != end {
                            st.fail("sched/clock".into(), format!("clock {} after the step, expected start {} + step size {}", obs[a].book.time, start, cfg.step_size), &acts);
                            ok = false;
                        }
                        let before_len = node.obs[a].book.trades.len();
                        let sum: u64 = obs[a].book.trades[before_len.min(obs[a].book.trades.len())..].iter().map(|t| t.vol as u64).sum();
                        if obs[a].book.views.trade_vol as u64 != sum {
                            st.fail(
                                "sched/step-trade-volume".into(),
                                format!("asset {}: traded volume after the step {} but this step's trades sum to {}", a, obs[a].book.views.trade_vol, sum),
                                &acts,
                            );
                            ok = false;
                        }
                    }
                }
                if cl.model {
                    if let Some(m) = model_mismatch {
                        st.fail("model/step-differs-from-reference".into(), m, &acts);
                        ok = false;
                    }
                }
                if cl.notrade && !node.trading {
                    for a in 0..A {
                        if obs[a].book.trades.len() != node.obs[a].book.trades.len() {
                            st.fail("notrade/trade-in-step-while-disabled".into(), format!("asset {}: {:?}", a, obs[a].book.trades.last()), &acts);
                            ok = false;
                        }
                    }
                }
                if cl.records {
                    let k = child.steps;
                    let mut lv = Vec::new();
                    for a in 0..A {
                        lv.push((live[a].clone(), start, node.obs[a].book.trades.len() as u64));
                    }
                    child.live_at_step.push(lv);
                    for a in 0..A {
                        let r = &obs[a].rec;
                        let lens = [
                            r.prices.0.len(), r.prices.1.len(), r.volumes.0.len(), r.volumes.1.len(),
                            r.touch_vols.0.len(), r.touch_vols.1.len(), r.touch_counts.0.len(), r.touch_counts.1.len(), r.trade_vols.len(),
                        ];
                        let lvl_lens: Vec<usize> = r.level_vols.0.iter().chain(r.level_vols.1.iter()).chain(r.level_counts.0.iter()).chain(r.level_counts.1.iter()).map(|v| v.len()).collect();
                        if lens.iter().any(|&x| x != k) || lvl_lens.iter().any(|&x| x != k) || r.level_vols.0.len() != L || r.level_vols.1.len() != L || r.level_counts.0.len() != L || r.level_counts.1.len() != L {
                            st.fail("records/series-length".into(), format!("asset {} after {} steps: lengths {:?} levels {:?}", a, k, lens, lvl_lens), &acts);
                            ok = false;
                            continue;
                        }
                        for j in 0..k {
                            let (lj, sj, _) = &child.live_at_step[j][a];
                            let mut bad = None;
                            if r.prices.0[j] != lj.head[0] { bad = Some("bid-price"); }
                            if r.prices.1[j] != lj.head[1] { bad = Some("ask-price"); }
                            if r.volumes.0[j] != lj.head[2] { bad = Some("bid-volume"); }
                            if r.volumes.1[j] != lj.head[3] { bad = Some("ask-volume"); }
                            if r.touch_vols.0[j] != lj.bid[0].0 { bad = Some("bid-touch-volume"); }
                            if r.touch_vols.1[j] != lj.ask[0].0 { bad = Some("ask-touch-volume"); }
                            if r.touch_counts.0[j] != lj.bid[0].1 { bad = Some("bid-touch-count"); }
                            if r.touch_counts.1[j] != lj.ask[0].1 { bad = Some("ask-touch-count"); }
                            for l in 0..L {
                                if r.level_vols.0[l][j] != lj.bid[l].0 { bad = Some("bid-level-volume"); }
                                if r.level_vols.1[l][j] != lj.ask[l].0 { bad = Some("ask-level-volume"); }
                                if r.level_counts.0[l][j] != lj.bid[l].1 { bad = Some("bid-level-count"); }
                                if r.level_counts.1[l][j] != lj.ask[l].1 { bad = Some("ask-level-count"); }
                            }
                            if let Some(b) = bad {
                                st.fail(
                                    format!("records/entry-differs-from-live-book/{}", b),
                                    format!("asset {} step {} of {}: recorded {:?} / live book at the end of that step {:?}", a, j, k, r, lj),
                                    &acts,
                                );
                                ok = false;
                                break;
                            }
                            // per-step traded volume vs trade log time stamps
                            let sum: u64 = obs[a].book.trades.iter().filter(|t| t.t >= *sj && t.t < *sj + cfg.step_size).map(|t| t.vol as u64).sum();
                            if (nb as u64) <= cfg.step_size && r.trade_vols[j] as u64 != sum {
                                st.fail(
                                    "records/trade-volume-series".into(),
                                    format!("asset {} step {}: recorded {} but trades stamped within the step sum to {} ({:?})", a, j, r.trade_vols[j], sum, r.trade_vols),
                                    &acts,
                                );
                                ok = false;
                                break;
                            }
                        }
                    }
                }
                if cl.invisible {
                    ok &= check_l2_is_live::<A>(st, &acts, &obs, &live, "after-step");
                }
                if cl.grid {
                    // the per-level data the environment publishes accounts for all resting volume in its range
                    for a in 0..A {
                        let tick = cfg.ticks[a] as i64;
                        let l2 = &obs[a].l2;
                        for bid in [true, false] {
                            let act: Vec<&OrderRec> = obs[a].book.orders.iter().filter(|o| o.status == ACTIVE && o.bid == bid).collect();
                            let touch = if bid { act.iter().map(|o| o.price).max().unwrap_or(0) } else { act.iter().map(|o| o.price).min().unwrap_or(MAXP) };
                            let total: u64 = act.iter().map(|o| o.vol as u64).sum();
                            let (pt, pv, lv) = if bid { (l2.head[0], l2.head[2], &l2.bid) } else { (l2.head[1], l2.head[3], &l2.ask) };
                            let mut bad = pt != touch || pv as u64 != total;
                            for (i, got) in lv.iter().enumerate() {
                                let p = if bid { touch as i64 - i as i64 * tick } else { touch as i64 + i as i64 * tick };
                                let want = if act.is_empty() {
                                    (0u32, 0u32)
                                } else {
                                    (act.iter().filter(|o| o.price as i64 == p).map(|o| o.vol).sum::<u32>(), act.iter().filter(|o| o.price as i64 == p).count() as u32)
                                };
                                bad |= *got != want;
                            }
                            if bad {
                                st.fail(
                                    "grid/published-levels-miss-resting-volume".into(),
                                    format!("asset {} side bid={}: level_2_data() {:?} but the resting orders are {:?}", a, bid, l2, act),
                                    &acts,
                                );
                                ok = false;
                            }
                        }
                    }
                    for a in 0..A {
                        for o in &obs[a].book.orders {
                            let market = (o.bid && o.price == MAXP) || (!o.bid && o.price == 0);
                            if !market && o.price % cfg.ticks[a] != 0 {
                                st.fail("grid/off-grid-price-after-step".into(), format!("asset {} {:?} tick {}", a, o, cfg.ticks[a]), &acts);
                                ok = false;
                            }
                        }
                    }
                }
                st.orders_seen.entry(nb).or_default().extend(observed_orders);
                child.cands = if cl.sched || cl.model { next_cands } else { vec![vec![]] };
                child.batch.clear();
                // queue emptied: an immediate second step with nothing submitted changes nothing but time and records
                if cl.sched && ok {
                    let probe = util::subject(|| {
                        let mut env = build_env::<A, L>(cfg, &acts);
                        let mut rng = ScriptRng::new(vec![], 77);
                        env.step(&mut rng);
                        env.observe()
                    });
                    match probe {
                        Ok(o2) => {
                            for a in 0..A {
                                let mut b2 = o2[a].book.clone();
                                let mut b1 = obs[a].book.clone();
                                b2.time = 0;
                                b1.time = 0;
                                b1.views.trade_vol = 0;
                                b2.views.trade_vol = 0;
                                if b1 != b2 {
                                    st.fail(
                                        "sched/queue-not-emptied".into(),
                                        format!("a second step with nothing submitted changed asset {}: {}", a, b1.describe_diff(&b2)),
                                        &acts,
                                    );
                                    ok = false;
                                }
                                if o2[a].rec.trade_vols.last().copied() != Some(0) {
                                    st.fail(
                                        "sched/empty-step-trade-volume".into(),
                                        format!("asset {}: an empty step recorded traded volume {:?}", a, o2[a].rec.trade_vols.last()),
                                        &acts,
                                    );
                                    ok = false;
                                }
                            }
                        }
                        Err(m) => {
                            st.fail(format!("panic/empty-step/{}", util::panic_sig(&m)), m, &acts);
                            ok = false;
                        }
                    }
                }
            }
        }
        if cl.invisible && !matches!(act, Act::Step(_)) {
            // snapshot handed to agents is still the one of the last step (live book then == live book now, as nothing is applied between steps)
            ok &= check_l2_is_live::<A>(st, &acts, &obs, &live, "between-steps");
        }
        child.obs = obs;
        if !ok {
            continue;
        }
        if spill_depth == Some(child.acts.len()) && depth_left > 1 {
            spill.push(child);
        } else {
            visit::<A, L>(cfg, st, &child, depth_left - 1, spill_depth, spill);
        }
    }
}

pub fn run_env<const A: usize, const L: usize>(cfg: &ECfg) -> (EStats, f64) {
    let t0 = std::time::Instant::now();
    let mut total = EStats::default();
    let env0 = AnyEnv::<A, L>::make(cfg.multi, cfg.start, &cfg.ticks, cfg.step_size, cfg.start_trading);
    let obs0 = env0.observe();
    if cfg.clauses.invisible {
        let live = live_l2(&env0);
        check_l2_is_live::<A>(&mut total, &[], &obs0, &live, "after-construction");
    }
    let mut root = ENode {
        acts: vec![],
        cands: vec![vec![]],
        batch: vec![],
        n_orders: vec![0; A],
        submits: 0,
        steps: 0,
        toggles: 0,
        b_submits: 0,
        b_steps: 0,
        b_toggles: 0,
        trading: cfg.start_trading,
        obs: obs0,
        live_at_step: vec![],
        time: cfg.start,
    };
    // scripted base: executed and judged through the same code, one forced act at a time
    for b in &cfg.base {
        FORCED.with(|f| *f.borrow_mut() = Some(b.clone()));
        let mut st = EStats::default();
        let mut spill = Vec::new();
        visit::<A, L>(cfg, &mut st, &root, 2, Some(root.acts.len() + 1), &mut spill);
        FORCED.with(|f| *f.borrow_mut() = None);
        total.merge(st);
        match spill.pop() {
            Some(n) => root = n,
            None => return (total, t0.elapsed().as_secs_f64()),
        }
    }
    root.b_submits = root.submits;
    root.b_steps = root.steps;
    root.b_toggles = root.toggles;
    let depth = cfg.max_submit + cfg.max_steps + cfg.max_toggles;
    let mut jobs = Vec::new();
    {
        let mut st = EStats::default();
        let spill_at = if depth >= 3 { Some(cfg.base.len() + 2) } else { None };
        visit::<A, L>(cfg, &mut st, &root, depth, spill_at, &mut jobs);
        total.merge(st);
    }
    let next = AtomicU64::new(0);
    let results: Mutex<Vec<EStats>> = Mutex::new(Vec::new());
    std::thread::scope(|s| {
        for _ in 0..util::n_threads() {
            s.spawn(|| {
                let mut st = EStats::default();
                loop {
                    let i = next.fetch_add(1, Ordering::Relaxed) as usize;
                    if i >= jobs.len() {
                        break;
                    }
                    let job = &jobs[i];
                    let dl = depth - (job.acts.len() - cfg.base.len());
                    let mut none = Vec::new();
                    visit::<A, L>(cfg, &mut st, job, dl, None, &mut none);
                }
                results.lock().unwrap().push(st);
            });
        }
    });
    for st in results.into_inner().unwrap() {
        total.merge(st);
    }
    (total, t0.elapsed().as_secs_f64())
}

thread_local! {
    static FORCED: std::cell::RefCell<Option<Act>> = std::cell::RefCell::new(None);
}
