//! bverif: model-checking harness for zombie-einstein/bourse. See /verif/DESIGN.md.
//!
//! usage: bverif <property-id> <quick|thorough>
//!        bverif replay <file>

mod absx;
mod agentsx;
mod bookprops;
mod bulk;
mod c07;
mod c09;
mod c15;
mod c17;
mod c20;
mod marketx;
mod envabs;
mod envprops;
mod envx;
mod scriptrng;
mod monitors;
mod ops;
mod pytrace;
mod refmodel;
mod report;
mod seqx;
mod snap;
mod util;

fn main() {
    util::install_quiet_panic_hook();
    util::start_rss_watchdog();
    let args: Vec<String> = std::env::args().collect();
    if args.len() < 3 {
        eprintln!("usage: bverif <C01..C20> <quick|thorough> | bverif replay <file>");
        std::process::exit(2);
    }
    if args[1] == "c09-child" {
        let progress = args.get(3).map_or(false, |x| x == "1");
        std::process::exit(c09::child_main(args[2].as_str(), progress));
    }
    if args[1] == "c09-child-sweep" {
        let progress = args.get(3).map_or(false, |x| x == "1");
        std::process::exit(c09::child_sweep_main(args[2].as_str(), progress));
    }
    if args[1] == "c09-child-scripted" {
        std::process::exit(c09::child_scripted_main(args[2].as_str()));
    }
    if args[1] == "replay" {
        std::process::exit(report::replay_file(args[2].as_str()));
    }
    let tier = args[2].as_str();
    let code = match args[1].as_str() {
        "C01" => bookprops::c01(tier),
        "C02" => bookprops::c02(tier),
        "C03" => bookprops::c03(tier),
        "C04" => bookprops::c04(tier),
        "C05" => {
            let mut out = report::Outcome::new("C05", tier, "model_checking");
            bookprops::c05_book(&mut out, bookprops::thorough(tier));
            envprops::c05_env_part(&mut out, bookprops::thorough(tier));
            out.finish()
        }
        "C06" => bookprops::c06(tier),
        "C07" => c07::c07(tier),
        "C08" => envprops::c08(tier),
        "C10" => envprops::c10(tier),
        "C11" => envprops::c11(tier),
        "C14" => envprops::c14(tier),
        "C09" => c09::c09(tier),
        "C15" => c15::c15(tier),
        "C16" => agentsx::c16(tier),
        "C17" => c17::c17(tier),
        "C18" => pytrace::c18(tier),
        "C19" => pytrace::c19(tier),
        "C20" => c20::c20(tier),
        "C12" => bookprops::c12(tier),
        "C13" => bookprops::c13(tier),
        other => {
            eprintln!("unknown property {}", other);
            2
        }
    };
    std::process::exit(code);
}
