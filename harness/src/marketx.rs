//! Exhaustive exploration of `Market<A, L>` against lock-step shadow `OrderBook<L>`s
//! (C14 market level; C07 market snapshots).

use crate::ops::{apply_real, scratch_path, trader_for, Op, Ret, Step};
use crate::report::Outcome;
use crate::snap::*;
use crate::util;
use bourse_book::types::Event;
use bourse_book::{Market, OrderBook};
use serde_json::json;
use std::collections::BTreeMap;
use std::sync::atomic::{AtomicU64, Ordering};
use std::sync::Mutex;

#[derive(Clone, Debug, PartialEq, Eq, Hash)]
pub enum MOp {
    /// an operation addressed to one asset (book-level op; Reload/SetTime/toggles never appear here)
    Asset { a: usize, op: Op },
    SetTime { dt: u64 },
    Enable,
    Disable,
    /// trading flag of one asset switched through `get_order_book_mut(a)`
    AssetToggle { a: usize, on: bool },
    /// the clock of asset 0 alone moved forward through `get_order_book_mut(0)` (asset 0 is the
    /// one `Market::get_time` reads, so no book is ever moved backwards afterwards)
    Asset0SetTime { dt: u64 },
    ResetTv,
    Reload { mode: u8 },
    /// every all-asset and per-asset query is read (and the values discarded): a read at a
    /// particular moment must not matter for anything that happens later
    Observe,
    /// a book operation applied to one asset's book directly, through `get_order_book_mut(a)`
    BookMut { a: usize, op: Op },
}

#[derive(Clone, Debug, PartialEq, Eq, Hash)]
pub struct MStep {
    pub dt: u64,
    pub op: MOp,
}

pub const TICKS: [u32; 4] = [1, 2, 3, 5];

fn ticks<const A: usize>() -> [u32; A] {
    core::array::from_fn(|i| TICKS[i % 4])
}

struct World<const A: usize, const L: usize> {
    market: Market<A, L>,
    shadows: Vec<OrderBook<L>>,
    trading: bool,
}

impl<const A: usize, const L: usize> World<A, L> {
    fn new() -> Self {
        World {
            market: Market::new(0, ticks::<A>(), true),
            shadows: (0..A).map(|i| OrderBook::<L>::new(0, TICKS[i % 4], true)).collect(),
            trading: true,
        }
    }

    /// apply one step to the market and to the shadows; returns (market's return, shadow's return)
    fn apply(&mut self, s: &MStep) -> Result<(Ret, Ret), String> {
        if s.dt > 0 {
            let t = self.market.get_time() + s.dt;
            self.market.set_time(t);
            for b in self.shadows.iter_mut() {
                b.set_time(t);
            }
        }
        match &s.op {
            MOp::Asset { a, op } => {
                let n = self.shadows[*a].get_orders().len();
                let sret = apply_real(&mut self.shadows[*a], &Step { dt: 0, op: op.clone() });
                let m = &mut self.market;
                let id_ret = |r: Result<(usize, usize), bourse_book::OrderError>| match r {
                    Ok((asset, id)) => {
                        if asset == *a {
                            Ret::Id(id)
                        } else {
                            Ret::ReloadFailed(format!("id for asset {} returned for asset {}", asset, a))
                        }
                    }
                    Err(_) => Ret::Err,
                };
                let mret = match op {
                    Op::Limit { bid, price, vol } => id_ret(m.create_and_place_order(*a, side_of(*bid), *vol, trader_for(n), Some(*price))),
                    Op::Market { bid, vol } => id_ret(m.create_and_place_order(*a, side_of(*bid), *vol, trader_for(n), None)),
                    Op::Create { bid, price, vol } => id_ret(m.create_order(*a, side_of(*bid), *vol, trader_for(n), *price)),
                    Op::BadCreate { bid, price, vol, place } => {
                        if *place {
                            id_ret(m.create_and_place_order(*a, side_of(*bid), *vol, trader_for(n), Some(*price)))
                        } else {
                            id_ret(m.create_order(*a, side_of(*bid), *vol, trader_for(n), Some(*price)))
                        }
                    }
                    Op::Place { id, ev } => {
                        if *ev {
                            m.process_event(Event::New { order_id: (*a, *id) });
                        } else {
                            m.place_order((*a, *id));
                        }
                        Ret::Unit
                    }
                    Op::Cancel { id, ev } => {
                        if *ev {
                            m.process_event(Event::Cancellation { order_id: (*a, *id) });
                        } else {
                            m.cancel_order((*a, *id));
                        }
                        Ret::Unit
                    }
                    Op::Modify { id, price, vol, ev } => {
                        if *ev {
                            m.process_event(Event::Modify { order_id: (*a, *id), new_price: *price, new_vol: *vol });
                        } else {
                            m.modify_order((*a, *id), *price, *vol);
                        }
                        Ret::Unit
                    }
                    other => return Err(format!("op {:?} is not an asset op", other)),
                };
                Ok((mret, sret))
            }
            MOp::SetTime { dt } => {
                let t = self.market.get_time() + dt;
                self.market.set_time(t);
                for b in self.shadows.iter_mut() {
                    b.set_time(t);
                }
                Ok((Ret::Unit, Ret::Unit))
            }
            MOp::Asset0SetTime { dt } => {
                let t = self.market.get_order_book(0).get_time() + dt;
                self.market.get_order_book_mut(0).set_time(t);
                self.shadows[0].set_time(t);
                Ok((Ret::Unit, Ret::Unit))
            }
            MOp::Enable => {
                self.market.enable_trading();
                self.trading = true;
                for b in self.shadows.iter_mut() {
                    b.enable_trading();
                }
                Ok((Ret::Unit, Ret::Unit))
            }
            MOp::Disable => {
                self.market.disable_trading();
                self.trading = false;
                for b in self.shadows.iter_mut() {
                    b.disable_trading();
                }
                Ok((Ret::Unit, Ret::Unit))
            }
            MOp::AssetToggle { a, on } => {
                if *on {
                    self.market.get_order_book_mut(*a).enable_trading();
                    self.shadows[*a].enable_trading();
                } else {
                    self.market.get_order_book_mut(*a).disable_trading();
                    self.shadows[*a].disable_trading();
                }
                Ok((Ret::Unit, Ret::Unit))
            }
            MOp::ResetTv => {
                self.market.reset_trade_vols();
                for b in self.shadows.iter_mut() {
                    b.reset_trade_vol();
                }
                Ok((Ret::Unit, Ret::Unit))
            }
            MOp::Observe => {
                let _ = self.check_queries();
                Ok((Ret::Unit, Ret::Unit))
            }
            MOp::BookMut { a, op } => {
                let st = Step { dt: 0, op: op.clone() };
                let sret = apply_real(&mut self.shadows[*a], &st);
                let mret = apply_real(self.market.get_order_book_mut(*a), &st);
                Ok((mret, sret))
            }
            MOp::Reload { mode } => {
                let r: Result<Market<A, L>, String> = match mode {
                    0 => serde_json::to_string(&self.market)
                        .map_err(|e| e.to_string())
                        .and_then(|s| serde_json::from_str(&s).map_err(|e| e.to_string())),
                    m => {
                        let p = scratch_path();
                        self.market
                            .save_json(&p, *m == 2)
                            .map_err(|e| e.to_string())
                            .and_then(|_| Market::<A, L>::load_json(&p).map_err(|e| e.to_string()))
                    }
                };
                match r {
                    Ok(m) => {
                        self.market = m;
                        Ok((Ret::Unit, Ret::Unit))
                    }
                    Err(e) => Ok((Ret::ReloadFailed(e), Ret::Unit)),
                }
            }
        }
    }

    fn snaps_market(&self) -> Vec<Snap> {
        (0..A).map(|a| Snap::take(self.market.get_order_book(a))).collect()
    }
    fn snaps_shadow(&self) -> Vec<Snap> {
        self.shadows.iter().map(Snap::take).collect()
    }

    /// all-asset queries equal the array of the shadows' values, in asset order
    fn check_queries(&self) -> Result<(), (String, String)> {
        let m = &self.market;
        let sh = &self.shadows;
        macro_rules! q {
            ($name:expr, $mv:expr, $f:expr) => {{
                let got = $mv;
                let want: Vec<_> = sh.iter().map($f).collect();
                if got.to_vec() != want {
                    return Err((
                        format!("all-asset-query/{}", $name),
                        format!("market {:?} vs stand-alone books {:?}", got, want),
                    ));
                }
            }};
        }
        q!("bid_vols", m.bid_vols(), |b| b.bid_vol());
        q!("ask_vols", m.ask_vols(), |b| b.ask_vol());
        q!("bid_best_vols", m.bid_best_vols(), |b| b.bid_best_vol());
        q!("ask_best_vols", m.ask_best_vols(), |b| b.ask_best_vol());
        q!("bid_best_vol_and_orders", m.bid_best_vol_and_orders(), |b| b.bid_best_vol_and_orders());
        q!("ask_best_vol_and_orders", m.ask_best_vol_and_orders(), |b| b.ask_best_vol_and_orders());
        q!("bid_levels", m.bid_levels(), |b| b.bid_levels());
        q!("ask_levels", m.ask_levels(), |b| b.ask_levels());
        q!("bid_asks", m.bid_asks(), |b| b.bid_ask());
        q!("get_trade_vols", m.get_trade_vols(), |b| b.get_trade_vol());
        let l2 = m.level_2_data();
        for a in 0..A {
            let w = sh[a].level_2_data();
            let g = &l2[a];
            if (g.bid_price, g.ask_price, g.bid_vol, g.ask_vol) != (w.bid_price, w.ask_price, w.bid_vol, w.ask_vol)
                || g.bid_price_levels != w.bid_price_levels
                || g.ask_price_levels != w.ask_price_levels
            {
                return Err((
                    "all-asset-query/level_2_data".into(),
                    format!("asset {}: market ({},{},{},{}) {:?} {:?} vs book ({},{},{},{}) {:?} {:?}", a,
                        g.bid_price, g.ask_price, g.bid_vol, g.ask_vol, g.bid_price_levels, g.ask_price_levels,
                        w.bid_price, w.ask_price, w.bid_vol, w.ask_vol, w.bid_price_levels, w.ask_price_levels),
                ));
            }
            let mo: Vec<OrderRec> = m.get_orders(a).into_iter().map(OrderRec::of).collect();
            let so: Vec<OrderRec> = sh[a].get_orders().into_iter().map(OrderRec::of).collect();
            if mo != so {
                return Err(("per-asset-query/get_orders".into(), format!("asset {}: {:?} vs {:?}", a, mo, so)));
            }
            for (i, o) in so.iter().enumerate() {
                let got = OrderRec::of(m.order((a, i)));
                if &got != o {
                    return Err(("per-asset-query/order".into(), format!("order ({},{}) = {:?} vs {:?}", a, i, got, o)));
                }
            }
        }
        if A > 0 && m.get_time() != sh[0].get_time() {
            return Err(("shared-clock".into(), format!("market time {} shadows {}", m.get_time(), sh[0].get_time())));
        }
        for a in 0..A {
            if m.get_order_book(a).get_time() != sh[a].get_time() {
                return Err(("shared-clock".into(), format!("asset {}: book time {} but its stand-alone book {}", a, m.get_order_book(a).get_time(), sh[a].get_time())));
            }
        }
        Ok(())
    }
}

fn build<const A: usize, const L: usize>(h: &[MStep]) -> World<A, L> {
    let mut w = World::<A, L>::new();
    for s in h {
        let _ = w.apply(s);
    }
    w
}

pub struct MCfg {
    pub depth: usize,
    pub reload_modes: Vec<u8>,
    pub events: bool,
    pub toggles: bool,
    pub modify: bool,
    pub create_place: bool,
    pub offgrid: bool,
    pub two_vols: bool,
    /// per-asset trading toggles through get_order_book_mut, and both market-level toggles always offered
    pub asset_toggles: bool,
    /// zero-volume placements and modifications (an unusual but accepted input; the oracle is
    /// the stand-alone book of the same library, so no semantics of our own are imposed)
    pub zero_vols: bool,
    /// "read everything" as an operation, and placements / cancels applied to an asset's book
    /// directly through get_order_book_mut
    pub observe_and_book_mut: bool,
    /// price alphabet at an end of the price axis: 1 = {0, one tick} (bid level walks pass zero),
    /// 2 = the two highest grid prices (ask level walks pass 2^32-1)
    pub edge: u8,
}

fn alphabet<const A: usize>(cfg: &MCfg, shadows: &[Snap], trading: bool) -> Vec<MStep> {
    let mut v = Vec::new();
    let routes: &[bool] = if cfg.events { &[false, true] } else { &[false] };
    for a in 0..A {
        let tick = TICKS[a % 4];
        let top = u32::MAX / tick * tick;
        let prices = match cfg.edge {
            1 => [0, tick],
            2 => [top - tick, top],
            _ => [2 * tick, 3 * tick],
        };
        let vols: &[u32] = if cfg.two_vols { &[1, 2] } else { &[2] };
        for bid in [true, false] {
            for p in prices {
                for &vol in vols {
                    v.push(MOp::Asset { a, op: Op::Limit { bid, price: p, vol } });
                }
            }
            v.push(MOp::Asset { a, op: Op::Market { bid, vol: 3 } });
            if cfg.zero_vols {
                v.push(MOp::Asset { a, op: Op::Limit { bid, price: prices[if bid { 0 } else { 1 }], vol: 0 } });
            }
        }
        let n = shadows[a].orders.len();
        for id in 0..n {
            for &ev in routes {
                v.push(MOp::Asset { a, op: Op::Cancel { id, ev } });
                if cfg.modify {
                    v.push(MOp::Asset { a, op: Op::Modify { id, price: Some(prices[1]), vol: None, ev } });
                    v.push(MOp::Asset { a, op: Op::Modify { id, price: None, vol: Some(1), ev } });
                    v.push(MOp::Asset { a, op: Op::Modify { id, price: Some(prices[0]), vol: Some(3), ev } });
                    if cfg.zero_vols {
                        v.push(MOp::Asset { a, op: Op::Modify { id, price: None, vol: Some(0), ev } });
                    }
                }
            }
        }
        if cfg.create_place {
            let unplaced = shadows[a].orders.iter().filter(|o| o.status == NEW).count();
            if unplaced == 0 {
                v.push(MOp::Asset { a, op: Op::Create { bid: true, price: Some(prices[1]), vol: 2 } });
                v.push(MOp::Asset { a, op: Op::Create { bid: false, price: None, vol: 3 } });
            }
            for id in 0..n {
                for &ev in routes {
                    v.push(MOp::Asset { a, op: Op::Place { id, ev } });
                }
            }
        }
        if cfg.offgrid && tick > 1 {
            v.push(MOp::Asset { a, op: Op::BadCreate { bid: true, price: 2 * tick + 1, vol: 1, place: true } });
            v.push(MOp::Asset { a, op: Op::BadCreate { bid: false, price: 3 * tick - 1, vol: 1, place: false } });
        }
    }
    if cfg.asset_toggles {
        v.push(MOp::Disable);
        v.push(MOp::Enable);
        for a in 0..A {
            v.push(MOp::AssetToggle { a, on: false });
            v.push(MOp::AssetToggle { a, on: true });
        }
        v.push(MOp::Asset0SetTime { dt: 3 });
        // "synchronise": the market-level clock set to the value asset 0 already shows
        v.push(MOp::SetTime { dt: 0 });
    } else if cfg.toggles {
        v.push(if trading { MOp::Disable } else { MOp::Enable });
    }
    if cfg.toggles {
        v.push(MOp::ResetTv);
        v.push(MOp::SetTime { dt: 2 });
    }
    for &mode in &cfg.reload_modes {
        v.push(MOp::Reload { mode });
    }
    if cfg.observe_and_book_mut {
        v.push(MOp::Observe);
        for a in 0..A {
            let tick = TICKS[a % 4];
            v.push(MOp::BookMut { a, op: Op::Limit { bid: true, price: 2 * tick, vol: 2 } });
            v.push(MOp::BookMut { a, op: Op::Limit { bid: false, price: 3 * tick, vol: 2 } });
            for id in 0..shadows[a].orders.len() {
                v.push(MOp::BookMut { a, op: Op::Cancel { id, ev: false } });
            }
        }
    }
    v.into_iter()
        .map(|op| {
            let dt = if matches!(op, MOp::SetTime { dt: 0 }) { 0 } else { 1 };
            MStep { dt, op }
        })
        .collect()
}

#[derive(Default)]
struct MStats {
    nodes: u64,
    leaves: u64,
    fails: BTreeMap<String, (String, Vec<MStep>)>,
    feats: BTreeMap<String, u64>,
    samples: Vec<Vec<MStep>>,
}

fn judge<const A: usize, const L: usize>(w: &World<A, L>, s: &MStep, rets: &(Ret, Ret), before: &[Snap], after_m: &[Snap], after_s: &[Snap]) -> Result<(), (String, String)> {
    if let Ret::ReloadFailed(e) = &rets.0 {
        return Err(("reload-failed".into(), e.clone()));
    }
    if rets.0 != rets.1 {
        return Err((
            "return-value".into(),
            format!("{:?}: market returned {:?}, stand-alone book {:?}", s.op, rets.0, rets.1),
        ));
    }
    for a in 0..A {
        if after_m[a] != after_s[a] {
            return Err((
                format!("asset-differs-from-standalone-book/{}", kind(&s.op)),
                format!("asset {} after {:?}: {}", a, s.op, after_s[a].describe_diff(&after_m[a])),
            ));
        }
    }
    if let MOp::Asset { a, .. } | MOp::BookMut { a, .. } = &s.op {
        for b in 0..A {
            if b != *a {
                let mut x = after_m[b].clone();
                x.time = before[b].time;
                if x != before[b] {
                    return Err((
                        "other-asset-changed".into(),
                        format!("{:?} changed asset {}: {}", s.op, b, before[b].describe_diff(&x)),
                    ));
                }
            }
        }
    }
    w.check_queries()
}

fn kind(op: &MOp) -> &'static str {
    match op {
        MOp::Asset { op, .. } => crate::monitors::op_kind(op),
        MOp::SetTime { .. } => "set-time",
        MOp::Enable => "enable",
        MOp::Disable => "disable",
        MOp::AssetToggle { .. } => "asset-toggle",
        MOp::Asset0SetTime { .. } => "asset-0-set-time",
        MOp::ResetTv => "reset-trade-vols",
        MOp::Reload { .. } => "reload",
        MOp::Observe => "observe",
        MOp::BookMut { .. } => "book-mut",
    }
}

fn rec<const A: usize, const L: usize>(cfg: &MCfg, st: &mut MStats, hist: &mut Vec<MStep>, before: &[Snap], trading: bool, depth_left: usize) {
    if depth_left == 0 {
        st.leaves += 1;
        if st.samples.len() < 2 && st.leaves % 10_007 == 1 {
            st.samples.push(hist.clone());
        }
        return;
    }
    for s in alphabet::<A>(cfg, before, trading) {
        hist.push(s.clone());
        st.nodes += 1;
        *st.feats.entry(format!("op:{}", kind(&s.op))).or_insert(0) += 1;
        let r = util::subject(|| {
            let mut w = build::<A, L>(&hist[..hist.len() - 1]);
            let rets = w.apply(&s)?;
            let am = w.snaps_market();
            let asn = w.snaps_shadow();
            let v = judge(&w, &s, &rets, before, &am, &asn);
            Ok::<_, String>((v, am, w.trading))
        });
        match r {
            Err(msg) => {
                let sig = format!("panic/{}/{}", kind(&s.op), util::panic_sig(&msg));
                st.fails.entry(sig).or_insert((msg, hist.clone()));
            }
            Ok(Err(e)) => {
                st.fails.entry("harness/bad-op".into()).or_insert((e, hist.clone()));
            }
            Ok(Ok((Err((c, d)), _, _))) => {
                let e = st.fails.entry(c).or_insert((d.clone(), hist.clone()));
                if hist.len() < e.1.len() {
                    *e = (d, hist.clone());
                }
            }
            Ok(Ok((Ok(()), am, tr))) => {
                if am.iter().any(|s| s.trades.len() > 0) {
                    *st.feats.entry("state-with-trades".into()).or_insert(0) += 1;
                }
                if am.iter().filter(|s| !s.orders.is_empty()).count() >= 2 {
                    *st.feats.entry("state-with-two-active-assets".into()).or_insert(0) += 1;
                }
                rec::<A, L>(cfg, st, hist, &am, tr, depth_left - 1);
            }
        }
        hist.pop();
    }
}

pub fn run_market<const A: usize, const L: usize>(cfg: &MCfg) -> (u64, u64, BTreeMap<String, (String, Vec<MStep>)>, BTreeMap<String, u64>, Vec<Vec<MStep>>, f64) {
    let t0 = std::time::Instant::now();
    let root = World::<A, L>::new();
    let before = root.snaps_market();
    let first = alphabet::<A>(cfg, &before, true);
    // jobs: first-level prefixes (judged inside rec by starting one level up per job)
    let next = AtomicU64::new(0);
    let total: Mutex<MStats> = Mutex::new(MStats::default());
    // second-level jobs for balance
    let mut jobs: Vec<Vec<MStep>> = Vec::new();
    {
        let mut st = MStats::default();
        // judge level-1 nodes here, produce level-1 prefixes as jobs
        for s in &first {
            let mut h = vec![s.clone()];
            st.nodes += 1;
            let r = util::subject(|| {
                let mut w = build::<A, L>(&[]);
                let rets = w.apply(s)?;
                let am = w.snaps_market();
                let asn = w.snaps_shadow();
                Ok::<_, String>(judge(&w, s, &rets, &before, &am, &asn))
            });
            match r {
                Ok(Ok(Ok(()))) => jobs.push(std::mem::take(&mut h)),
                Ok(Ok(Err((c, d)))) => {
                    st.fails.entry(c).or_insert((d, h));
                }
                Ok(Err(e)) => {
                    st.fails.entry("harness/bad-op".into()).or_insert((e, h));
                }
                Err(m) => {
                    st.fails.entry(format!("panic/{}/{}", kind(&s.op), util::panic_sig(&m))).or_insert((m, h));
                }
            }
        }
        let mut t = total.lock().unwrap();
        t.nodes += st.nodes;
        t.fails.extend(st.fails);
    }
    std::thread::scope(|sc| {
        for _ in 0..util::n_threads() {
            sc.spawn(|| {
                let mut st = MStats::default();
                loop {
                    let i = next.fetch_add(1, Ordering::Relaxed) as usize;
                    if i >= jobs.len() {
                        break;
                    }
                    let mut h = jobs[i].clone();
                    let w = build::<A, L>(&h);
                    let b = w.snaps_market();
                    if cfg.depth > 1 {
                        rec::<A, L>(cfg, &mut st, &mut h, &b, w.trading, cfg.depth - 1);
                    } else {
                        st.leaves += 1;
                    }
                }
                let mut t = total.lock().unwrap();
                t.nodes += st.nodes;
                t.leaves += st.leaves;
                for (k, v) in st.fails {
                    let e = t.fails.entry(k).or_insert(v.clone());
                    if v.1.len() < e.1.len() {
                        *e = v;
                    }
                }
                for (k, v) in st.feats {
                    *t.feats.entry(k).or_insert(0) += v;
                }
                if t.samples.len() < 4 {
                    t.samples.extend(st.samples);
                }
            });
        }
    });
    let t = total.into_inner().unwrap();
    (t.nodes, t.leaves, t.fails, t.feats, t.samples, t0.elapsed().as_secs_f64())
}

fn absorb(out: &mut Outcome, label: &str, assets: usize, levels: usize, depth: usize, r: (u64, u64, BTreeMap<String, (String, Vec<MStep>)>, BTreeMap<String, u64>, Vec<Vec<MStep>>, f64), sig_prefix: &str) {
    let (nodes, leaves, fails, feats, samples, wall) = r;
    eprintln!("  {:<52} A={} L={} depth={} nodes={:>9} fails={} {:.1}s", label, assets, levels, depth, nodes, fails.len(), wall);
    out.add_u64("states", nodes);
    out.add_u64("transitions", nodes);
    out.add_u64("traces_validated_against_impl", leaves);
    out.push(
        "runs",
        json!({"label": label, "assets": assets, "levels": levels, "depth": depth, "nodes": nodes, "leaves": leaves,
               "features": feats, "wall_s": (wall*100.0).round()/100.0, "violating_signatures": fails.keys().collect::<Vec<_>>()}),
    );
    for s in samples.iter().take(1) {
        out.push("samples", json!(s.iter().map(|x| format!("+{} {:?}", x.dt, x.op)).collect::<Vec<_>>()));
    }
    for (sig, (detail, h)) in fails {
        out.fail_other(
            &format!("{}/{}", sig_prefix, sig),
            detail,
            json!({"engine": "marketx", "assets": assets, "levels": levels, "ticks": (0..assets).map(|i| TICKS[i % 4]).collect::<Vec<_>>(),
                   "steps": h.iter().map(|x| format!("+{} {:?}", x.dt, x.op)).collect::<Vec<_>>()}),
        );
    }
    if feats.get("state-with-trades").copied().unwrap_or(0) == 0 && nodes > 100 {
        out.machinery_errors.push(format!("vacuous market exploration '{}': no state with trades", label));
    }
}

/// C14, market level
pub fn c14_market_part(out: &mut Outcome, t: bool) {
    let full = MCfg { depth: if t { 5 } else { 4 }, reload_modes: vec![], events: false, toggles: true, modify: true, create_place: false, offgrid: true, two_vols: false, asset_toggles: false, zero_vols: false, observe_and_book_mut: false, edge: 0 };
    absorb(out, "Market<2>: ops x assets, modify, toggles, off-grid", 2, 3, full.depth, run_market::<2, 3>(&full), "market");
    let ev = MCfg { depth: if t { 4 } else { 3 }, reload_modes: vec![], events: true, toggles: true, modify: true, create_place: true, offgrid: true, two_vols: true, asset_toggles: false, zero_vols: false, observe_and_book_mut: false, edge: 0 };
    absorb(out, "Market<2>: + event route, create/place, two volumes", 2, 3, ev.depth, run_market::<2, 3>(&ev), "market");
    let a1 = MCfg { depth: if t { 5 } else { 4 }, reload_modes: vec![], events: false, toggles: true, modify: true, create_place: true, offgrid: false, two_vols: true, asset_toggles: false, zero_vols: false, observe_and_book_mut: false, edge: 0 };
    absorb(out, "Market<1>", 1, 3, a1.depth, run_market::<1, 3>(&a1), "market");
    let a3 = MCfg { depth: if t { 5 } else { 4 }, reload_modes: vec![], events: false, toggles: true, modify: false, create_place: false, offgrid: true, two_vols: false, asset_toggles: false, zero_vols: false, observe_and_book_mut: false, edge: 0 };
    absorb(out, "Market<3>: three ticks", 3, 2, a3.depth, run_market::<3, 2>(&a3), "market");
    let z = MCfg { depth: if t { 5 } else { 4 }, reload_modes: vec![], events: false, toggles: false, modify: true, create_place: false, offgrid: false, two_vols: false, asset_toggles: false, zero_vols: true, observe_and_book_mut: false, edge: 0 };
    absorb(out, "Market<2>: zero-volume placements and modifications", 2, 3, z.depth, run_market::<2, 3>(&z), "market");
    let at = MCfg { depth: if t { 4 } else { 3 }, reload_modes: vec![], events: false, toggles: true, modify: true, create_place: false, offgrid: false, two_vols: false, asset_toggles: true, zero_vols: false, observe_and_book_mut: false, edge: 0 };
    absorb(out, "Market<3>: per-asset toggles through get_order_book_mut", 3, 2, at.depth, run_market::<3, 2>(&at), "market");
    let many = MCfg { depth: if t { 3 } else { 2 }, reload_modes: vec![], events: false, toggles: true, modify: true, create_place: false, offgrid: false, two_vols: false, asset_toggles: true, zero_vols: false, observe_and_book_mut: false, edge: 0 };
    absorb(out, "Market<12,2>: two-digit asset counts", 12, 2, many.depth, run_market::<12, 2>(&many), "market");
    // reads at chosen moments (histories are otherwise replayed without a single query in between)
    // and mutations that bypass the market's own entry points
    let ob = MCfg { depth: if t { 5 } else { 4 }, reload_modes: vec![], events: false, toggles: false, modify: false, create_place: false, offgrid: false, two_vols: false, asset_toggles: false, zero_vols: false, observe_and_book_mut: true, edge: 0 };
    absorb(out, "Market<2>: reading as an operation, placements and cancels through get_order_book_mut", 2, 3, ob.depth, run_market::<2, 3>(&ob), "market");
    let ob3 = MCfg { depth: if t { 4 } else { 3 }, reload_modes: vec![0], events: false, toggles: true, modify: true, create_place: false, offgrid: false, two_vols: false, asset_toggles: false, zero_vols: false, observe_and_book_mut: true, edge: 0 };
    absorb(out, "Market<3,2>: reading as an operation, get_order_book_mut, modify, reload", 3, 2, ob3.depth, run_market::<3, 2>(&ob3), "market");
    let a4 = MCfg { depth: if t { 4 } else { 3 }, reload_modes: vec![], events: false, toggles: true, modify: true, create_place: false, offgrid: true, two_vols: false, asset_toggles: false, zero_vols: false, observe_and_book_mut: false, edge: 0 };
    absorb(out, "Market<4>: four ticks", 4, 3, a4.depth, run_market::<4, 3>(&a4), "market");
    // quotes at the ends of the price axis (limit prices 0 and one tick; the two highest grid prices): the
    // per-asset level walks of the all-asset queries pass 0 / 2^32-1
    for edge in [1u8, 2] {
        let e = MCfg { depth: if t { 4 } else { 3 }, reload_modes: vec![], events: false, toggles: true, modify: true, create_place: false, offgrid: false, two_vols: true, asset_toggles: false, zero_vols: false, observe_and_book_mut: false, edge };
        absorb(out, if edge == 1 { "Market<3,3> ticks 1,2,3: limit prices 0 and one tick" } else { "Market<3,3> ticks 1,2,3: the two highest grid prices" }, 3, 3, e.depth, run_market::<3, 3>(&e), "market");
    }
}

/// C12, market level: on/off-grid creations through the market, reads at chosen moments and
/// mutations through get_order_book_mut: every all-asset query (published levels included) must
/// equal the stand-alone books' after every operation
pub fn c12_market_part(out: &mut Outcome, t: bool) {
    let c = MCfg { depth: if t { 5 } else { 4 }, reload_modes: vec![], events: false, toggles: false, modify: false, create_place: false, offgrid: true, two_vols: false, asset_toggles: false, zero_vols: false, observe_and_book_mut: true, edge: 0 };
    absorb(out, "Market<2,3> ticks 1,2: on/off-grid creations, reading as an operation, get_order_book_mut", 2, 3, c.depth, run_market::<2, 3>(&c), "market");
    let c = MCfg { depth: if t { 4 } else { 3 }, reload_modes: vec![], events: true, toggles: false, modify: true, create_place: true, offgrid: true, two_vols: false, asset_toggles: false, zero_vols: false, observe_and_book_mut: true, edge: 0 };
    absorb(out, "Market<3,2> ticks 1,2,3: + modify, create/place, event route", 3, 2, c.depth, run_market::<3, 2>(&c), "market");
}

/// C13, market level: market-wide and per-asset trading toggles against stand-alone books
pub fn c13_market_part(out: &mut Outcome, t: bool) {
    let c = MCfg { depth: if t { 5 } else { 4 }, reload_modes: vec![], events: false, toggles: false, modify: true, create_place: false, offgrid: false, two_vols: false, asset_toggles: true, zero_vols: false, observe_and_book_mut: false, edge: 0 };
    absorb(out, "Market<2,3>: market-wide and per-asset toggles at every point", 2, 3, c.depth, run_market::<2, 3>(&c), "market");
    let c = MCfg { depth: if t { 4 } else { 3 }, reload_modes: vec![], events: false, toggles: false, modify: false, create_place: false, offgrid: false, two_vols: false, asset_toggles: true, zero_vols: false, observe_and_book_mut: false, edge: 0 };
    absorb(out, "Market<3,2>: market-wide and per-asset toggles", 3, 2, c.depth, run_market::<3, 2>(&c), "market");
}

/// C07, multi-asset snapshots: reload as an operation, shadows are never reloaded
pub fn c07_market_part(out: &mut Outcome, t: bool) {
    let c2 = MCfg { depth: if t { 5 } else { 4 }, reload_modes: vec![0, 1, 2], events: false, toggles: true, modify: true, create_place: true, offgrid: false, two_vols: false, asset_toggles: false, zero_vols: false, observe_and_book_mut: false, edge: 0 };
    if t {
        absorb(out, "Market<2,3>: reload (memory/compact/pretty) as an operation", 2, 3, c2.depth, run_market::<2, 3>(&c2), "market-reload");
    } else {
        let cm = MCfg { reload_modes: vec![0], ..c2 };
        absorb(out, "Market<2,3>: in-memory reload as an operation", 2, 3, 4, run_market::<2, 3>(&cm), "market-reload");
        let cf = MCfg { depth: 3, reload_modes: vec![1, 2], ..cm };
        absorb(out, "Market<2,3>: reload through a compact / pretty file as an operation", 2, 3, 3, run_market::<2, 3>(&cf), "market-reload");
    }
    let c3 = MCfg { depth: if t { 4 } else { 3 }, reload_modes: vec![0, 2], events: false, toggles: true, modify: true, create_place: false, offgrid: false, two_vols: false, asset_toggles: false, zero_vols: false, observe_and_book_mut: false, edge: 0 };
    absorb(out, "Market<3,2>: reload as an operation", 3, 2, c3.depth, run_market::<3, 2>(&c3), "market-reload");
    // two-digit asset counts
    let c12 = MCfg { depth: if t { 3 } else { 2 }, reload_modes: vec![0, 1], events: false, toggles: true, modify: false, create_place: false, offgrid: false, two_vols: false, asset_toggles: false, zero_vols: false, observe_and_book_mut: false, edge: 0 };
    absorb(out, "Market<12,2>: reload as an operation", 12, 2, c12.depth, run_market::<12, 2>(&c12), "market-reload");
    absorb(out, "Market<25,1>: reload as an operation", 25, 1, 2, run_market::<25, 1>(&MCfg { depth: 2, ..c12 }), "market-reload");
}
