//! Oracles (DESIGN §2.5). Each returns `Err((clause, detail))` on the first failed clause.

use crate::ops::{Op, Ret, Step};
use crate::refmodel::RefModel;
use crate::snap::*;
use bourse_book::OrderBook;

pub type Verdict = Result<(), (String, String)>;

fn bad(clause: &str, detail: String) -> Verdict {
    Err((clause.to_string(), detail))
}

/// History-dependent facts the harness knows because it issued the requests itself.
#[derive(Clone, Debug, Default)]
pub struct Track {
    /// per order: net volume removed by explicit modify requests that were applied
    pub explicit: Vec<i64>,
    /// per order: created without a price
    pub is_market: Vec<bool>,
    /// trade-log length at the last counter reset
    pub tv_reset_at: usize,
    pub trading: bool,
    pub ever_disabled: bool,
}

impl Track {
    pub fn new(trading: bool) -> Self {
        Track {
            explicit: vec![],
            is_market: vec![],
            tv_reset_at: 0,
            trading,
            ever_disabled: !trading,
        }
    }

    /// Update from the request just issued (uses only the harness's own knowledge and the
    /// snapshot taken before the call).
    pub fn note(&mut self, step: &Step, before: &Snap, after: &Snap) {
        match &step.op {
            Op::Modify { id, vol: Some(v), .. } => {
                if before.orders[*id].status == ACTIVE {
                    self.explicit[*id] += before.orders[*id].vol as i64 - *v as i64;
                }
            }
            Op::ResetTv => self.tv_reset_at = before.trades.len(),
            Op::Enable => self.trading = true,
            Op::Disable => {
                self.trading = false;
                self.ever_disabled = true;
            }
            _ => {}
        }
        while self.explicit.len() < after.orders.len() {
            self.explicit.push(0);
            let market = matches!(
                step.op,
                Op::Market { .. } | Op::Create { price: None, .. }
            );
            self.is_market.push(market);
        }
    }
}

// ------------------------------------------------------------------------------------------
// M_views (C02): every view recomputed from get_orders() alone
// ------------------------------------------------------------------------------------------

pub fn m_views(s: &Snap, tick: u32, ever_disabled: bool) -> Verdict {
    let act: Vec<&OrderRec> = s.orders.iter().filter(|o| o.status == ACTIVE).collect();
    let bids: Vec<&&OrderRec> = act.iter().filter(|o| o.bid).collect();
    let asks: Vec<&&OrderRec> = act.iter().filter(|o| !o.bid).collect();
    let tb = bids.iter().map(|o| o.price).max().unwrap_or(0);
    let ta = asks.iter().map(|o| o.price).min().unwrap_or(MAXP);
    let v = &s.views;
    if v.bid_ask != (tb, ta) {
        return bad(
            "touch",
            format!("bid_ask() = {:?}, active orders give {:?}", v.bid_ask, (tb, ta)),
        );
    }
    let bv: u64 = bids.iter().map(|o| o.vol as u64).sum();
    let av: u64 = asks.iter().map(|o| o.vol as u64).sum();
    if v.bid_vol as u64 != bv || v.ask_vol as u64 != av {
        return bad(
            "side-volume",
            format!(
                "bid_vol/ask_vol = ({},{}) active orders give ({},{})",
                v.bid_vol, v.ask_vol, bv, av
            ),
        );
    }
    let lvl = |bid: bool, p: i64| -> (u32, u32) {
        if p < 0 || p > MAXP as i64 {
            return (0, 0);
        }
        let side = if bid { &bids } else { &asks };
        let mut vol = 0u64;
        let mut n = 0u32;
        for o in side.iter() {
            if o.price as i64 == p {
                vol += o.vol as u64;
                n += 1;
            }
        }
        // (valid histories keep every side below 2^32; saturate rather than abort the harness)
        (vol.min(u32::MAX as u64) as u32, n)
    };
    let b0 = if bids.is_empty() { (0, 0) } else { lvl(true, tb as i64) };
    let a0 = if asks.is_empty() { (0, 0) } else { lvl(false, ta as i64) };
    if v.bid_best_vo != b0 || v.ask_best_vo != a0 {
        return bad(
            "touch-volume-count",
            format!(
                "best_vol_and_orders = {:?}/{:?}, active orders give {:?}/{:?}",
                v.bid_best_vo, v.ask_best_vo, b0, a0
            ),
        );
    }
    if v.bid_best_vol != b0.0 || v.ask_best_vol != a0.0 {
        return bad(
            "touch-volume",
            format!(
                "best_vol = {}/{}, active orders give {}/{}",
                v.bid_best_vol, v.ask_best_vol, b0.0, a0.0
            ),
        );
    }
    let n = v.bid_levels.len();
    for i in 0..n {
        let eb = if bids.is_empty() {
            (0, 0)
        } else {
            lvl(true, tb as i64 - (i as i64) * tick as i64)
        };
        let ea = if asks.is_empty() {
            (0, 0)
        } else {
            lvl(false, ta as i64 + (i as i64) * tick as i64)
        };
        if v.bid_levels[i] != eb {
            return bad(
                "bid-level",
                format!("bid_levels()[{}] = {:?}, active orders give {:?}", i, v.bid_levels[i], eb),
            );
        }
        if v.ask_levels[i] != ea {
            return bad(
                "ask-level",
                format!("ask_levels()[{}] = {:?}, active orders give {:?}", i, v.ask_levels[i], ea),
            );
        }
    }
    // level-1 / level-2 records agree with the individual getters
    let l1 = [
        v.bid_ask.0,
        v.bid_ask.1,
        v.bid_vol,
        v.ask_vol,
        v.bid_best_vo.0,
        v.ask_best_vo.0,
        v.bid_best_vo.1,
        v.ask_best_vo.1,
    ];
    if v.l1 != l1 {
        return bad("level-1-record", format!("level_1_data {:?} getters {:?}", v.l1, l1));
    }
    if v.l2_head != [v.bid_ask.0, v.bid_ask.1, v.bid_vol, v.ask_vol]
        || v.l2_bid_levels != v.bid_levels
        || v.l2_ask_levels != v.ask_levels
    {
        return bad(
            "level-2-record",
            format!(
                "level_2_data {:?} {:?} {:?} vs getters {:?} {:?} {:?}",
                v.l2_head, v.l2_bid_levels, v.l2_ask_levels, v.bid_ask, v.bid_levels, v.ask_levels
            ),
        );
    }
    match &v.mid {
        Err(msg) => {
            return bad(
                &format!("mid-price-panic/{}", crate::util::panic_sig(msg)),
                format!("mid_price() panicked: {} with bid_ask {:?}", msg, v.bid_ask),
            )
        }
        Ok(bits) => {
            let mid = f64::from_bits(*bits);
            let want = (tb as f64 + ta as f64) / 2.0;
            if mid != want {
                return bad("mid-price", format!("mid_price() = {} want {}", mid, want));
            }
        }
    }
    if !ever_disabled && !bids.is_empty() && !asks.is_empty() && tb >= ta {
        return bad(
            "crossed-book",
            format!("best bid {} >= best ask {} although trading was never disabled", tb, ta),
        );
    }
    Ok(())
}

// ------------------------------------------------------------------------------------------
// M_ledger (C03)
// ------------------------------------------------------------------------------------------

pub fn m_ledger(before: &Snap, after: &Snap, track: &Track) -> Verdict {
    if after.trades.len() < before.trades.len() {
        return bad(
            "log-shrunk",
            format!("{} -> {}", before.trades.len(), after.trades.len()),
        );
    }
    for (i, (a, b)) in before.trades.iter().zip(after.trades.iter()).enumerate() {
        if a != b {
            return bad("log-entry-changed", format!("trade {} was {:?} now {:?}", i, a, b));
        }
    }
    for t in &after.trades[before.trades.len()..] {
        if t.t != after.time {
            return bad(
                "trade-time",
                format!("trade {:?} stamped {} but clock is {}", t, t.t, after.time),
            );
        }
        if t.vol == 0 {
            return bad("trade-zero-volume", format!("{:?}", t));
        }
        if t.passive >= before.orders.len() || t.active >= after.orders.len() {
            return bad("trade-unknown-order", format!("{:?}", t));
        }
        let p = &before.orders[t.passive];
        let a = &after.orders[t.active];
        if p.status != ACTIVE {
            return bad(
                "trade-passive-not-resting",
                format!("{:?} passive was {}", t, st_name(p.status)),
            );
        }
        if t.passive == t.active {
            return bad("trade-self", format!("{:?}", t));
        }
        if t.price != p.price || t.bid != p.bid {
            return bad(
                "trade-price-side",
                format!("{:?} but resting order was {:?}", t, p),
            );
        }
        if a.bid == p.bid {
            return bad("trade-same-side", format!("{:?} aggressor {:?} passive {:?}", t, a, p));
        }
        let admits = if a.bid { a.price >= t.price } else { a.price <= t.price };
        if !admits {
            return bad(
                "trade-beyond-limit",
                format!("{:?} aggressor limit {} side bid={}", t, a.price, a.bid),
            );
        }
    }
    // conservation per order
    let mut traded = vec![0i64; after.orders.len()];
    for t in &after.trades {
        if t.active < traded.len() {
            traded[t.active] += t.vol as i64;
        }
        if t.passive < traded.len() {
            traded[t.passive] += t.vol as i64;
        }
    }
    for o in &after.orders {
        let lost = o.start_vol as i64 - o.vol as i64;
        let expl = track.explicit.get(o.id).copied().unwrap_or(0);
        if lost != traded[o.id] + expl {
            return bad(
                "volume-conservation",
                format!(
                    "order {:?}: start-vol = {} but logged trades {} + explicit reductions {}",
                    o, lost, traded[o.id], expl
                ),
            );
        }
    }
    let since: u64 = after.trades[track.tv_reset_at.min(after.trades.len())..]
        .iter()
        .map(|t| t.vol as u64)
        .sum();
    if after.views.trade_vol as u64 != since {
        return bad(
            "trade-vol-counter",
            format!(
                "get_trade_vol() = {} but trades since last reset sum to {}",
                after.views.trade_vol, since
            ),
        );
    }
    Ok(())
}

// ------------------------------------------------------------------------------------------
// M_life (C04)
// ------------------------------------------------------------------------------------------

fn masked_eq(a: &Snap, b: &Snap) -> bool {
    a.orders == b.orders && a.trades == b.trades && a.views == b.views
}

pub fn m_life(before: &Snap, after: &Snap, step: &Step, ret: &Ret, track: &Track, trading_before: bool) -> Verdict {
    let nb = before.orders.len();
    let na = after.orders.len();
    let creates = matches!(
        step.op,
        Op::Limit { .. } | Op::Market { .. } | Op::Create { .. }
    );
    if creates {
        if na != nb + 1 {
            return bad("id-density", format!("creation changed order count {} -> {}", nb, na));
        }
        if *ret != Ret::Id(nb) {
            return bad("id-density", format!("creation returned {:?}, expected id {}", ret, nb));
        }
    } else if !matches!(step.op, Op::BadCreate { .. }) && na != nb {
        return bad("order-count", format!("{:?} changed order count {} -> {}", step.op, nb, na));
    }
    for (i, o) in after.orders.iter().enumerate() {
        if o.id != i {
            return bad("id-density", format!("order at index {} has id {}", i, o.id));
        }
    }
    for (b, a) in before.orders.iter().zip(after.orders.iter()) {
        if b.id != a.id || b.bid != a.bid || b.trader != a.trader || b.start_vol != a.start_vol {
            return bad("immutable-fields", format!("{:?} -> {:?}", b, a));
        }
        let market = track.is_market.get(b.id).copied().unwrap_or(false);
        let ok = match (b.status, a.status) {
            (x, y) if x == y => true,
            (NEW, ACTIVE) => !market,
            (NEW, FILLED) => true,
            (NEW, CANCELLED) => market,
            (NEW, REJECTED) => market && !trading_before_for(step, trading_before),
            (ACTIVE, FILLED) | (ACTIVE, CANCELLED) => true,
            _ => false,
        };
        if !ok {
            return bad(
                &format!("status-transition/{}-{}", st_name(b.status), st_name(a.status)),
                format!("{:?} -> {:?} (market={}) by {:?}", b, a, market, step.op),
            );
        }
        if b.status >= FILLED && b != a {
            return bad("terminal-order-changed", format!("{:?} -> {:?}", b, a));
        }
        // Filled means nothing is left; a market order is Cancelled only for an unfilled remainder
        if a.status == FILLED && a.vol != 0 {
            return bad("filled-with-volume-left", format!("{:?}", a));
        }
        if b.status == NEW && a.status == CANCELLED && market && a.vol == 0 {
            return bad("completely-filled-market-order-cancelled", format!("{:?} -> {:?}", b, a));
        }
        if b.status == NEW && a.status != NEW {
            if a.arr != after.time {
                return bad(
                    "arrival-time",
                    format!("{:?} placed at clock {} has arr_time {}", a, after.time, a.arr),
                );
            }
        } else if a.arr != b.arr {
            return bad("arrival-time-changed", format!("{:?} -> {:?}", b, a));
        }
        if b.status < FILLED && a.status >= FILLED {
            if a.end != after.time {
                return bad(
                    "end-time",
                    format!("{:?} ended at clock {} has end_time {}", a, after.time, a.end),
                );
            }
        } else if a.end != b.end {
            return bad("end-time-changed", format!("{:?} -> {:?}", b, a));
        }
    }
    if creates {
        let o = &after.orders[nb];
        if matches!(step.op, Op::Create { .. }) && o.status != NEW {
            return bad("created-not-new", format!("{:?}", o));
        }
        if o.status == ACTIVE && track.is_market.get(nb).copied().unwrap_or(false) {
            return bad("market-order-resting", format!("{:?}", o));
        }
        if o.status == FILLED && o.vol != 0 {
            return bad("filled-with-volume-left", format!("{:?}", o));
        }
        if o.status == CANCELLED && o.vol == 0 && track.is_market.get(nb).copied().unwrap_or(false) && o.start_vol > 0 {
            return bad("completely-filled-market-order-cancelled", format!("{:?}", o));
        }
        if o.status != NEW {
            if o.arr != after.time {
                return bad("arrival-time", format!("{:?} clock {}", o, after.time));
            }
            if o.status >= FILLED && o.end != after.time {
                return bad("end-time", format!("{:?} clock {}", o, after.time));
            }
        }
        if o.trader != crate::ops::trader_for(nb) || o.vol > o.start_vol {
            return bad("created-fields", format!("{:?}", o));
        }
    }
    // redundant requests change nothing but (possibly) the clock
    let redundant = match &step.op {
        Op::Place { id, .. } => before.orders[*id].status != NEW,
        Op::Cancel { id, .. } => before.orders[*id].status != ACTIVE,
        Op::Modify { id, price, vol, .. } => {
            before.orders[*id].status != ACTIVE || (price.is_none() && vol.is_none())
        }
        Op::SetTime { .. } | Op::Observe => true,
        _ => false,
    };
    if redundant && !masked_eq(before, after) {
        return bad(
            &format!("redundant-request-not-noop/{}", op_kind(&step.op)),
            format!("{:?}: {}", step.op, before_after_diff(before, after)),
        );
    }
    let want_t = before.time
        + step.dt
        + match step.op {
            Op::SetTime { dt } => dt,
            _ => 0,
        };
    if after.time != want_t {
        return bad("clock", format!("clock {} expected {}", after.time, want_t));
    }
    Ok(())
}

fn trading_before_for(_step: &Step, trading_before: bool) -> bool {
    trading_before
}

pub fn op_kind(op: &Op) -> &'static str {
    match op {
        Op::Limit { .. } => "limit",
        Op::Market { .. } => "market",
        Op::Create { .. } => "create",
        Op::Place { .. } => "place",
        Op::Cancel { .. } => "cancel",
        Op::Modify { .. } => "modify",
        Op::SetTime { .. } => "set-time",
        Op::Enable => "enable",
        Op::Disable => "disable",
        Op::ResetTv => "reset-trade-vol",
        Op::Reload { .. } => "reload",
        Op::BadCreate { .. } => "offgrid-create",
        Op::Observe => "observe",
    }
}

pub fn before_after_diff(before: &Snap, after: &Snap) -> String {
    let mut a = after.clone();
    a.time = before.time;
    before.describe_diff(&a)
}

// ------------------------------------------------------------------------------------------
// M_grid (C12)
// ------------------------------------------------------------------------------------------

pub fn m_grid(before: &Snap, after: &Snap, step: &Step, ret: &Ret, track: &Track, tick: u32) -> Verdict {
    match &step.op {
        Op::Limit { price, .. } | Op::Create { price: Some(price), .. } => {
            if price % tick == 0 && !matches!(ret, Ret::Id(_)) {
                return bad("on-grid-creation-refused", format!("{:?} -> {:?}", step.op, ret));
            }
        }
        Op::Market { .. } | Op::Create { price: None, .. } => {
            if !matches!(ret, Ret::Id(_)) {
                return bad("market-creation-refused", format!("{:?} -> {:?}", step.op, ret));
            }
        }
        Op::BadCreate { price, .. } => {
            assert!(price % tick != 0);
            if *ret != Ret::Err {
                return bad(
                    "off-grid-creation-accepted",
                    format!("{:?} returned {:?}", step.op, ret),
                );
            }
            if !masked_eq(before, after) {
                return bad(
                    "rejected-creation-left-trace",
                    format!("{:?}: {}", step.op, before_after_diff(before, after)),
                );
            }
        }
        _ => {}
    }
    for o in &after.orders {
        let market = track.is_market.get(o.id).copied().unwrap_or(false);
        if !market && o.price % tick != 0 {
            return bad(
                &format!("off-grid-price/after-{}", op_kind(&step.op)),
                format!("{:?} has price {} with tick {} after {:?}", o, o.price, tick, step.op),
            );
        }
    }
    // published levels account for all resting volume within their range
    let v = &after.views;
    let n = v.bid_levels.len() as i64;
    for bid in [true, false] {
        let act: Vec<&OrderRec> = after
            .orders
            .iter()
            .filter(|o| o.status == ACTIVE && o.bid == bid)
            .collect();
        if act.is_empty() {
            continue;
        }
        let (lo, hi) = if bid {
            let t = act.iter().map(|o| o.price).max().unwrap() as i64;
            (t - (n - 1) * tick as i64, t)
        } else {
            let t = act.iter().map(|o| o.price).min().unwrap() as i64;
            (t, t + (n - 1) * tick as i64)
        };
        let inrange: u64 = act
            .iter()
            .filter(|o| (o.price as i64) >= lo && (o.price as i64) <= hi)
            .map(|o| o.vol as u64)
            .sum();
        let published: u64 = if bid { &v.bid_levels } else { &v.ask_levels }
            .iter()
            .map(|x| x.0 as u64)
            .sum();
        if inrange != published {
            return bad(
                "levels-miss-resting-volume",
                format!(
                    "side bid={}: resting volume within [{},{}] is {} but published levels sum to {}",
                    bid, lo, hi, inrange, published
                ),
            );
        }
    }
    Ok(())
}

// ------------------------------------------------------------------------------------------
// M_notrade (C13, direct clauses)
// ------------------------------------------------------------------------------------------

pub fn m_notrade(before: &Snap, after: &Snap, step: &Step, track_before: &Track) -> Verdict {
    let off = match step.op {
        // the toggle itself never trades either
        Op::Enable | Op::Disable => true,
        _ => !track_before.trading,
    };
    if off && after.trades.len() != before.trades.len() {
        return bad(
            &format!("trade-while-disabled/{}", op_kind(&step.op)),
            format!("{:?} recorded {:?}", step.op, after.trades.last()),
        );
    }
    if matches!(step.op, Op::Enable | Op::Disable) && !masked_eq(before, after) {
        return bad(
            "toggle-not-noop",
            format!("{:?}: {}", step.op, before_after_diff(before, after)),
        );
    }
    if !track_before.trading {
        if let Op::Market { .. } = step.op {
            let n = before.orders.len();
            let o = &after.orders[n];
            if o.status != REJECTED {
                return bad("market-order-not-rejected", format!("{:?}", o));
            }
            if after.orders[..n] != before.orders[..] || after.views != before.views {
                return bad(
                    "rejected-market-order-touched-book",
                    before_after_diff(before, after),
                );
            }
        }
        // nothing loses volume except by explicit request while disabled
        for (b, a) in before.orders.iter().zip(after.orders.iter()) {
            if a.status == FILLED && b.status != FILLED {
                return bad("fill-while-disabled", format!("{:?} -> {:?}", b, a));
            }
        }
    }
    Ok(())
}

// ------------------------------------------------------------------------------------------
// Drain probe
// ------------------------------------------------------------------------------------------

/// Send one market order per side for the whole opposite volume to the real book and to the
/// model and compare what executes. Consumes both (they are scratch copies).
pub fn drain_probe<const L: usize>(book: &mut OrderBook<L>, m: &mut RefModel) -> Verdict {
    use bourse_book::types::Side;
    book.enable_trading();
    m.enable();
    let n0 = book.get_trades().len();
    let m0 = m.trades.len();
    for bid in [true, false] {
        let t = book.get_time().saturating_add(1);
        book.set_time(t);
        m.set_time(m.t.saturating_add(1));
        // the probe itself stays inside the validity clause: the traded-volume counter restarts per sweep
        book.reset_trade_vol();
        m.reset_trade_vol();
        let opp_impl = if bid { book.ask_vol() } else { book.bid_vol() } as u64;
        let opp_model = m.side_vol(!bid);
        let vol = (opp_impl + opp_model + 1).min(u32::MAX as u64) as u32;
        let _ = book.create_and_place_order(if bid { Side::Bid } else { Side::Ask }, vol, 9, None);
        let i = m.create(bid, vol, 9, None).unwrap();
        m.place(i);
    }
    let it: Vec<(usize, u32, u32)> = book.get_trades()[n0..]
        .iter()
        .map(|t| (t.passive_order_id, t.price, t.vol))
        .collect();
    let mt: Vec<(usize, u32, u32)> = m.trades[m0..]
        .iter()
        .map(|t| (t.passive, t.price, t.vol))
        .collect();
    if it != mt {
        let k = it.iter().zip(mt.iter()).take_while(|(a, b)| a == b).count();
        return bad(
            "drain-sequence",
            format!(
                "sweeping the book executes (passive id, price, vol) {:?} on the implementation but {:?} on the reference (first difference at fill {})",
                it, mt, k
            ),
        );
    }
    let orders = book.get_orders();
    for (o, mo) in orders.iter().zip(m.orders.iter()) {
        if st_code(o.status) != mo.status || o.vol != mo.vol {
            return bad(
                "drain-residue",
                format!(
                    "after sweeping both sides order {} is {} vol {} (reference: {} vol {})",
                    o.order_id,
                    st_name(st_code(o.status)),
                    o.vol,
                    st_name(mo.status),
                    mo.vol
                ),
            );
        }
    }
    if book.bid_vol() != 0 || book.ask_vol() != 0 || book.bid_ask() != (0, MAXP) {
        return bad(
            "drain-residue",
            format!(
                "after sweeping both sides the book still reports bid_ask {:?} volumes ({},{})",
                book.bid_ask(),
                book.bid_vol(),
                book.ask_vol()
            ),
        );
    }
    Ok(())
}
