//! Operations on a book, how they are applied to the real `OrderBook` and to the model, and
//! the alphabets ("profiles") the explorer enumerates.

use crate::refmodel::RefModel;
use crate::snap::*;
use bourse_book::types::Event;
use bourse_book::OrderBook;
use serde_json::json;

#[derive(Clone, Debug, PartialEq, Eq, Hash)]
pub enum Op {
    /// create_and_place_order with a limit price
    Limit { bid: bool, price: u32, vol: u32 },
    /// create_and_place_order without a price
    Market { bid: bool, vol: u32 },
    /// create_order only
    Create { bid: bool, price: Option<u32>, vol: u32 },
    Place { id: usize, ev: bool },
    Cancel { id: usize, ev: bool },
    Modify { id: usize, price: Option<u32>, vol: Option<u32>, ev: bool },
    /// explicit forward clock change as an operation of its own
    SetTime { dt: u64 },
    Enable,
    Disable,
    ResetTv,
    /// serialise, deserialise, continue on the reloaded object. 0 = in memory, 1 = compact file, 2 = pretty file
    Reload { mode: u8 },
    /// creation request with an off-grid price: must be rejected without trace
    BadCreate { bid: bool, price: u32, vol: u32, place: bool },
    /// read everything a caller can read (every getter, every order and trade record, a JSON
    /// serialisation) and go on: looking must not change anything, now or later
    Observe,
}

#[derive(Clone, Debug, PartialEq, Eq, Hash)]
pub struct Step {
    /// clock advance applied (through `set_time`) before the operation
    pub dt: u64,
    pub op: Op,
}

impl Step {
    pub fn to_json(&self) -> serde_json::Value {
        json!({"dt": self.dt, "op": format!("{:?}", self.op)})
    }
    pub fn rust_stmt(&self) -> String {
        let mut s = String::new();
        if self.dt > 0 {
            s += &format!("book.set_time(book.get_time() + {});\n    ", self.dt);
        }
        let sd = |b: bool| if b { "Side::Bid" } else { "Side::Ask" };
        let op = |o: Option<u32>| match o {
            Some(x) => format!("Some({})", x),
            None => "None".to_string(),
        };
        s += &match &self.op {
            Op::Limit { bid, price, vol } => format!(
                "book.create_and_place_order({}, {}, TRADER, Some({})).unwrap();",
                sd(*bid),
                vol,
                price
            ),
            Op::Market { bid, vol } => format!(
                "book.create_and_place_order({}, {}, TRADER, None).unwrap();",
                sd(*bid),
                vol
            ),
            Op::Create { bid, price, vol } => format!(
                "book.create_order({}, {}, TRADER, {}).unwrap();",
                sd(*bid),
                vol,
                op(*price)
            ),
            Op::Place { id, ev: false } => format!("book.place_order({});", id),
            Op::Place { id, ev: true } => {
                format!("book.process_event(Event::New {{ order_id: {} }});", id)
            }
            Op::Cancel { id, ev: false } => format!("book.cancel_order({});", id),
            Op::Cancel { id, ev: true } => format!(
                "book.process_event(Event::Cancellation {{ order_id: {} }});",
                id
            ),
            Op::Modify { id, price, vol, ev: false } => {
                format!("book.modify_order({}, {}, {});", id, op(*price), op(*vol))
            }
            Op::Modify { id, price, vol, ev: true } => format!(
                "book.process_event(Event::Modify {{ order_id: {}, new_price: {}, new_vol: {} }});",
                id,
                op(*price),
                op(*vol)
            ),
            Op::SetTime { dt } => format!("book.set_time(book.get_time() + {});", dt),
            Op::Enable => "book.enable_trading();".to_string(),
            Op::Disable => "book.disable_trading();".to_string(),
            Op::ResetTv => "book.reset_trade_vol();".to_string(),
            Op::Reload { .. } => {
                "let book: OrderBook<LEVELS> = serde_json::from_str(&serde_json::to_string(&book).unwrap()).unwrap(); let mut book = book;".to_string()
            }
            Op::Observe => "let _ = (book.bid_ask(), book.bid_vol(), book.ask_vol(), book.bid_best_vol_and_orders(), book.ask_best_vol_and_orders(), book.bid_levels(), book.ask_levels(), book.level_1_data(), book.level_2_data(), book.mid_price(), book.get_trade_vol(), book.get_orders().len(), book.get_trades().len(), serde_json::to_string(&book).unwrap());".to_string(),
            Op::BadCreate { bid, price, vol, place } => format!(
                "assert!(book.{}({}, {}, TRADER, Some({})).is_err());",
                if *place { "create_and_place_order" } else { "create_order" },
                sd(*bid),
                vol,
                price
            ),
        };
        s
    }
}

/// What the real call returned, reduced to what callers can observe
#[derive(Clone, Debug, PartialEq, Eq)]
pub enum Ret {
    Unit,
    Id(usize),
    Err,
    ReloadFailed(String),
}

/// trader id given to the n-th order: TRADER_BASE + n (base 100; base 0 makes trader ids
/// coincide with order ids; a base just below 2^32 makes them huge)
pub static TRADER_BASE: std::sync::atomic::AtomicU32 = std::sync::atomic::AtomicU32::new(100);

/// number of distinct traders: 0 = every order has its own trader, k > 0 = the n-th order belongs to
/// trader TRADER_BASE + n % k (k = 1: one trader owns both sides of every trade)
pub static TRADER_MOD: std::sync::atomic::AtomicU32 = std::sync::atomic::AtomicU32::new(0);

pub fn trader_for(n_orders: usize) -> u32 {
    let k = TRADER_MOD.load(std::sync::atomic::Ordering::Relaxed);
    let n = if k == 0 { n_orders as u32 } else { n_orders as u32 % k };
    TRADER_BASE.load(std::sync::atomic::Ordering::Relaxed).wrapping_add(n)
}

pub fn set_traders(base: u32, modulus: u32) {
    TRADER_BASE.store(base, std::sync::atomic::Ordering::Relaxed);
    TRADER_MOD.store(modulus, std::sync::atomic::Ordering::Relaxed);
}

pub fn scratch_path() -> std::path::PathBuf {
    let dir = std::env::temp_dir().join(format!("bverif-{}", std::process::id()));
    let _ = std::fs::create_dir_all(&dir);
    dir.join(format!("t{:?}.json", std::thread::current().id()).replace(['(', ')'], ""))
}

pub fn cleanup_scratch() {
    let dir = std::env::temp_dir().join(format!("bverif-{}", std::process::id()));
    let _ = std::fs::remove_dir_all(dir);
}

pub fn reload_book<const L: usize>(book: &OrderBook<L>, mode: u8) -> Result<OrderBook<L>, String> {
    match mode {
        0 => {
            let s = serde_json::to_string(book).map_err(|e| e.to_string())?;
            serde_json::from_str::<OrderBook<L>>(&s).map_err(|e| e.to_string())
        }
        m => {
            let p = scratch_path();
            book.save_json(&p, m == 2).map_err(|e| e.to_string())?;
            OrderBook::<L>::load_json(&p).map_err(|e| e.to_string())
        }
    }
}

/// Apply a step to the real book.
pub fn apply_real<const L: usize>(book: &mut OrderBook<L>, s: &Step) -> Ret {
    if s.dt > 0 {
        book.set_time(book.get_time() + s.dt);
    }
    let n = book.get_orders().len();
    match &s.op {
        Op::Limit { bid, price, vol } => {
            match book.create_and_place_order(side_of(*bid), *vol, trader_for(n), Some(*price)) {
                Ok(i) => Ret::Id(i),
                Err(_) => Ret::Err,
            }
        }
        Op::Market { bid, vol } => {
            match book.create_and_place_order(side_of(*bid), *vol, trader_for(n), None) {
                Ok(i) => Ret::Id(i),
                Err(_) => Ret::Err,
            }
        }
        Op::Create { bid, price, vol } => {
            match book.create_order(side_of(*bid), *vol, trader_for(n), *price) {
                Ok(i) => Ret::Id(i),
                Err(_) => Ret::Err,
            }
        }
        Op::Place { id, ev } => {
            if *ev {
                book.process_event(Event::New { order_id: *id });
            } else {
                book.place_order(*id);
            }
            Ret::Unit
        }
        Op::Cancel { id, ev } => {
            if *ev {
                book.process_event(Event::Cancellation { order_id: *id });
            } else {
                book.cancel_order(*id);
            }
            Ret::Unit
        }
        Op::Modify { id, price, vol, ev } => {
            if *ev {
                book.process_event(Event::Modify {
                    order_id: *id,
                    new_price: *price,
                    new_vol: *vol,
                });
            } else {
                book.modify_order(*id, *price, *vol);
            }
            Ret::Unit
        }
        Op::SetTime { dt } => {
            book.set_time(book.get_time() + dt);
            Ret::Unit
        }
        Op::Enable => {
            book.enable_trading();
            Ret::Unit
        }
        Op::Disable => {
            book.disable_trading();
            Ret::Unit
        }
        Op::ResetTv => {
            book.reset_trade_vol();
            Ret::Unit
        }
        Op::Reload { mode } => match reload_book(book, *mode) {
            Ok(b) => {
                *book = b;
                Ret::Unit
            }
            Err(e) => Ret::ReloadFailed(e),
        },
        Op::Observe => {
            let _ = Snap::take(book);
            let _ = serde_json::to_string(book);
            Ret::Unit
        }
        Op::BadCreate { bid, price, vol, place } => {
            let r = if *place {
                book.create_and_place_order(side_of(*bid), *vol, trader_for(n), Some(*price))
            } else {
                book.create_order(side_of(*bid), *vol, trader_for(n), Some(*price))
            };
            match r {
                Ok(i) => Ret::Id(i),
                Err(_) => Ret::Err,
            }
        }
    }
}

/// Apply a step to the reference model.
pub fn apply_model(m: &mut RefModel, s: &Step) -> Ret {
    if s.dt > 0 {
        m.set_time(m.t + s.dt);
    }
    let n = m.orders.len();
    match &s.op {
        Op::Limit { bid, price, vol } => match m.create(*bid, *vol, trader_for(n), Some(*price)) {
            Ok(i) => {
                m.place(i);
                Ret::Id(i)
            }
            Err(_) => Ret::Err,
        },
        Op::Market { bid, vol } => {
            let i = m.create(*bid, *vol, trader_for(n), None).unwrap();
            m.place(i);
            Ret::Id(i)
        }
        Op::Create { bid, price, vol } => match m.create(*bid, *vol, trader_for(n), *price) {
            Ok(i) => Ret::Id(i),
            Err(_) => Ret::Err,
        },
        Op::Place { id, .. } => {
            m.place(*id);
            Ret::Unit
        }
        Op::Cancel { id, .. } => {
            m.cancel(*id);
            Ret::Unit
        }
        Op::Modify { id, price, vol, .. } => {
            m.modify(*id, *price, *vol);
            Ret::Unit
        }
        Op::SetTime { dt } => {
            m.set_time(m.t + dt);
            Ret::Unit
        }
        Op::Enable => {
            m.enable();
            Ret::Unit
        }
        Op::Disable => {
            m.disable();
            Ret::Unit
        }
        Op::ResetTv => {
            m.reset_trade_vol();
            Ret::Unit
        }
        Op::Reload { .. } => Ret::Unit,
        Op::Observe => Ret::Unit,
        Op::BadCreate { bid, price, vol, place } => {
            match m.create(*bid, *vol, trader_for(n), Some(*price)) {
                Ok(i) => {
                    if *place {
                        m.place(i);
                    }
                    Ret::Id(i)
                }
                Err(_) => Ret::Err,
            }
        }
    }
}

// ------------------------------------------------------------------------------------------
// Profiles
// ------------------------------------------------------------------------------------------

#[derive(Clone, Copy, Debug, PartialEq, Eq)]
pub enum DtMode {
    /// clock +1 before every operation
    One,
    /// {0,+1}, but 0 only where it cannot create a same-price same-stamp pair (C01's discipline)
    ZeroOneDisciplined,
    /// {0,+1} everywhere (C05's tie profile)
    ZeroOneFree,
}

#[derive(Clone, Debug)]
pub struct Profile {
    pub name: String,
    pub tick: u32,
    pub start_time: u64,
    pub start_trading: bool,
    /// grid prices offered for limit orders and re-pricing modifies
    pub prices: Vec<u32>,
    pub limit_vols: Vec<u32>,
    pub market_vols: Vec<u32>,
    pub dt: DtMode,
    /// separate create / place(id) operations (id order != queue order)
    pub create_place: bool,
    /// at most this many created-but-unplaced orders at once
    pub max_unplaced: usize,
    /// route place/cancel/modify also through process_event
    pub events: bool,
    /// offer place(id) for ids that are not New (redundant requests)
    pub redundant_place: bool,
    /// volumes offered by modify (None is always offered together with a price)
    pub modify_vols: Vec<u32>,
    /// offer re-pricing modifies
    pub modify_prices: bool,
    pub modify: bool,
    pub toggles: bool,
    pub set_time_op: bool,
    pub reset_tv: bool,
    /// reload modes offered as operations
    pub reload_modes: Vec<u8>,
    /// off-grid prices offered to create/create_and_place/modify (C12)
    pub offgrid_prices: Vec<u32>,
    /// cap on orders ever created in one history (keeps branching finite at depth)
    pub max_orders: usize,
    /// volumes / prices / times of large magnitude: operations are filtered by the validity
    /// clause of the properties (per-side resting volume and cumulative traded volume < 2^32)
    pub magnitude: bool,
    /// clock advance of the explicit set_time operation
    pub set_time_dt: u64,
    /// cancel / modify / place are offered for the most recent ids only (histories with hundreds of orders)
    pub id_window: usize,
    /// trader id of the n-th order = trader_base + n
    pub trader_base: u32,
    /// number of distinct traders (0 = one per order; 1 = a single trader on both sides; 2 = two alternating)
    pub trader_mod: u32,
    /// "read everything" offered as an operation of its own (histories are otherwise replayed
    /// without a single getter call between the operations)
    pub observe_op: bool,
}

impl Profile {
    pub fn core(name: &str, tick: u32, base: u32) -> Profile {
        Profile {
            name: name.to_string(),
            tick,
            start_time: 0,
            start_trading: true,
            prices: vec![base * tick, (base + 1) * tick, (base + 2) * tick],
            limit_vols: vec![1, 2],
            market_vols: vec![1, 3],
            dt: DtMode::One,
            create_place: false,
            max_unplaced: 1,
            events: false,
            redundant_place: false,
            modify_vols: vec![],
            modify_prices: false,
            modify: false,
            toggles: false,
            set_time_op: false,
            reset_tv: false,
            reload_modes: vec![],
            offgrid_prices: vec![],
            max_orders: usize::MAX,
            magnitude: false,
            set_time_dt: 2,
            id_window: usize::MAX,
            trader_base: 100,
            trader_mod: 0,
            observe_op: false,
        }
    }

    /// values that coincide with one another: prices 1,2,3 = volumes 1,2,3 = small ids = trader ids, clock starting at 1
    pub fn coincidences(name: &str) -> Profile {
        let mut p = Profile::core(name, 1, 1);
        p.limit_vols = vec![1, 2, 3];
        p.market_vols = vec![1, 3];
        p.trader_base = 0;
        p.start_time = 1;
        p
    }

    /// a clock that crosses a boundary of an integer type within the history (2^32, 2^53, 2^63) or
    /// reaches the largest representable time
    pub fn clock_boundary(name: &str, start_time: u64) -> Profile {
        let mut p = Profile::core(name, 1, 10);
        p.start_time = start_time;
        p.prices = vec![10, 11];
        p.dt = DtMode::ZeroOneDisciplined;
        p.modify = true;
        p.modify_prices = true;
        p.modify_vols = vec![1];
        p
    }

    /// large numbers: times beyond 2^32, prices around 2^31, volumes beyond 2^16 and 2^31
    pub fn magnitude(name: &str) -> Profile {
        let mut p = Profile::core(name, 1, 10);
        p.start_time = 1 << 40;
        // prices straddling 2^31; 2147483647 and 2147483648 are complementary (p and 2^32-1-p)
        p.prices = vec![2_147_483_646, 2_147_483_647, 2_147_483_648];
        p.limit_vols = vec![1, 70_000, 2_000_000_000, 3_000_000_000];
        p.market_vols = vec![3, 3_000_000_010];
        p.magnitude = true;
        p.reset_tv = true;
        p.set_time_dt = 1 << 33;
        p.trader_base = u32::MAX - 1000;
        p
    }

    /// does `step` keep the history inside the validity clause (per-side resting volume and
    /// cumulative traded volume < 2^32)? Decided on the reference model, which counts in 64 bits.
    fn valid_magnitude(m: &RefModel, step: &Step) -> bool {
        let cap = u32::MAX as u64;
        let mut m2 = m.clone();
        apply_model(&mut m2, step);
        m2.side_vol(true) <= cap && m2.side_vol(false) <= cap && m2.trade_vol <= cap
    }

    pub fn to_json(&self) -> serde_json::Value {
        json!({
            "name": self.name, "tick": self.tick, "start_trading": self.start_trading,
            "prices": self.prices, "limit_vols": self.limit_vols, "market_vols": self.market_vols,
            "dt": format!("{:?}", self.dt), "create_place": self.create_place, "events": self.events,
            "redundant_place": self.redundant_place, "modify": self.modify, "modify_vols": self.modify_vols,
            "modify_prices": self.modify_prices, "toggles": self.toggles, "set_time_op": self.set_time_op,
            "reset_tv": self.reset_tv, "reload_modes": self.reload_modes, "offgrid_prices": self.offgrid_prices,
        })
    }

    /// Operations (without clock choice) enabled in the state described by the model.
    pub fn ops(&self, m: &RefModel) -> Vec<Op> {
        let mut v = Vec::new();
        let n = m.orders.len();
        let room = n < self.max_orders;
        if room {
            for &bid in &[true, false] {
                for &p in &self.prices {
                    for &vol in &self.limit_vols {
                        v.push(Op::Limit { bid, price: p, vol });
                    }
                }
            }
            for &bid in &[true, false] {
                for &vol in &self.market_vols {
                    v.push(Op::Market { bid, vol });
                }
            }
        }
        let routes: &[bool] = if self.events { &[false, true] } else { &[false] };
        let first_id = n.saturating_sub(self.id_window);
        for id in first_id..n {
            for &ev in routes {
                v.push(Op::Cancel { id, ev });
            }
        }
        if self.create_place {
            let unplaced = m.orders.iter().filter(|o| o.status == NEW).count();
            if unplaced < self.max_unplaced && room {
                for &bid in &[true, false] {
                    // one limit price per side keeps the branching in check: the middle one
                    let p = self.prices[self.prices.len() / 2];
                    v.push(Op::Create { bid, price: Some(p), vol: self.limit_vols[self.limit_vols.len() - 1] });
                    if let Some(mv) = self.market_vols.last() {
                        v.push(Op::Create { bid, price: None, vol: *mv });
                    }
                }
            }
            for id in first_id..n {
                if m.orders[id].status == NEW || self.redundant_place {
                    for &ev in routes {
                        v.push(Op::Place { id, ev });
                    }
                }
            }
        }
        if self.modify {
            for id in first_id..n {
                for &ev in routes {
                    let mut popts: Vec<Option<u32>> = vec![None];
                    if self.modify_prices {
                        popts.extend(self.prices.iter().map(|p| Some(*p)));
                    }
                    for p in &popts {
                        let mut vopts: Vec<Option<u32>> = vec![None];
                        vopts.extend(self.modify_vols.iter().map(|x| Some(*x)));
                        for vol in &vopts {
                            v.push(Op::Modify { id, price: *p, vol: *vol, ev });
                        }
                    }
                    for &p in &self.offgrid_prices {
                        v.push(Op::Modify { id, price: Some(p), vol: None, ev });
                    }
                }
            }
        }
        if self.toggles {
            v.push(if m.trading { Op::Disable } else { Op::Enable });
            // the redundant toggle too: must be a no-op
            v.push(if m.trading { Op::Enable } else { Op::Disable });
        }
        if self.set_time_op {
            v.push(Op::SetTime { dt: self.set_time_dt });
        }
        if self.reset_tv {
            v.push(Op::ResetTv);
        }
        for &mode in &self.reload_modes {
            v.push(Op::Reload { mode });
        }
        if self.observe_op {
            v.push(Op::Observe);
        }
        if room {
            for &p in &self.offgrid_prices {
                for &bid in &[true, false] {
                    v.push(Op::BadCreate { bid, price: p, vol: 1, place: false });
                    v.push(Op::BadCreate { bid, price: p, vol: 1, place: true });
                }
            }
        }
        v
    }

    /// Steps (clock choice x operation) enabled in this state.
    pub fn steps(&self, m: &RefModel) -> Vec<Step> {
        let mut ops = self.ops(m);
        // (the clock is a u64: near its end an operation that would need a later time is not offered)
        ops.retain(|op| match op {
            Op::SetTime { dt } => m.t.checked_add(*dt + 1).is_some(),
            _ => true,
        });
        let can_advance = m.t.checked_add(1).is_some();
        if self.magnitude {
            ops.retain(|op| Self::valid_magnitude(m, &Step { dt: 1, op: op.clone() }));
        }
        let mut out = Vec::with_capacity(ops.len() * 2);
        match self.dt {
            DtMode::One => {
                for op in ops {
                    if can_advance {
                        out.push(Step { dt: 1, op });
                    }
                }
            }
            DtMode::ZeroOneFree => {
                for op in ops {
                    if can_advance {
                        out.push(Step { dt: 1, op: op.clone() });
                    }
                    out.push(Step { dt: 0, op });
                }
            }
            DtMode::ZeroOneDisciplined => {
                for op in ops {
                    if can_advance {
                        out.push(Step { dt: 1, op: op.clone() });
                    }
                    let s0 = Step { dt: 0, op };
                    let mut m2 = m.clone();
                    apply_model(&mut m2, &s0);
                    if !m2.has_tie() {
                        out.push(s0);
                    }
                }
            }
        }
        out
    }
}
