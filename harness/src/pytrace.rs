//! C18 / C19: trace conformance of the Python extension (DESIGN §2.7). The Rust side
//! enumerates call traces against the Rust core and writes them with the expected result of
//! the last call; a CPython driver (python3-vt) replays all of them on the freshly built
//! extension module.

use crate::report::Outcome;
use crate::snap::*;
use bourse_book::OrderBook;
use bourse_de::Env;
use rand_xoshiro::rand_core::SeedableRng;
use rand_xoshiro::Xoroshiro128StarStar;
use serde_json::{json, Value};
use std::io::Write;

const TICK: u32 = 2;

fn orders_json(o: &[OrderRec]) -> Value {
    json!(o
        .iter()
        .map(|x| json!([x.bid, x.status, x.arr, x.end, x.vol, x.start_vol, x.price, x.trader, x.id]))
        .collect::<Vec<_>>())
}
fn trades_json(t: &[TradeRec]) -> Value {
    json!(t.iter().map(|x| json!([x.t, x.bid, x.price, x.vol, x.active, x.passive])).collect::<Vec<_>>())
}

// ------------------------------------------------------------------------------------------
// OrderBook traces
// ------------------------------------------------------------------------------------------

#[derive(Clone, Debug)]
enum ObCall {
    Place { bid: bool, vol: u32, price: Option<u32> },
    Cancel { id: usize },
    Modify { id: usize, price: Option<u32>, vol: Option<u32> },
    Enable,
    Disable,
    SetTime { dt: u64 },
    /// a call with an out-of-range integer: [method, args...] with the offending value as a string
    Overflow(Value),
}

fn ob_call_json(c: &ObCall, trader: u32) -> Value {
    match c {
        ObCall::Place { bid, vol, price } => json!(["place", bid, vol, trader, price]),
        ObCall::Cancel { id } => json!(["cancel", id]),
        ObCall::Modify { id, price, vol } => json!(["modify", id, price, vol]),
        ObCall::Enable => json!(["enable"]),
        ObCall::Disable => json!(["disable"]),
        ObCall::SetTime { dt } => json!(["advance", dt]),
        ObCall::Overflow(v) => v.clone(),
    }
}

fn ob_state(b: &OrderBook) -> Value {
    let s = Snap::take(b);
    json!({
        "bid_ask": [s.views.bid_ask.0, s.views.bid_ask.1],
        "bid_vol": s.views.bid_vol, "ask_vol": s.views.ask_vol,
        "best_bid_vol": s.views.bid_best_vol, "best_ask_vol": s.views.ask_best_vol,
        "best_bid_vol_and_orders": [s.views.bid_best_vo.0, s.views.bid_best_vo.1],
        "best_ask_vol_and_orders": [s.views.ask_best_vo.0, s.views.ask_best_vo.1],
        "orders": orders_json(&s.orders), "trades": trades_json(&s.trades),
    })
}

/// apply to the Rust core; the k-th call (0-based) happens at time k+1 (clock discipline)
fn ob_apply(b: &mut OrderBook, k: usize, c: &ObCall) -> (Value, Option<&'static str>) {
    b.set_time(b.get_time().max(k as u64 + 1));
    let n = b.get_orders().len();
    match c {
        ObCall::Place { bid, vol, price } => match b.create_and_place_order(side_of(*bid), *vol, 100 + n as u32, *price) {
            Ok(i) => (json!(i), None),
            Err(_) => (Value::Null, Some("ValueError")),
        },
        ObCall::Cancel { id } => {
            b.cancel_order(*id);
            (Value::Null, None)
        }
        ObCall::Modify { id, price, vol } => {
            b.modify_order(*id, *price, *vol);
            (Value::Null, None)
        }
        ObCall::Enable => {
            b.enable_trading();
            (Value::Null, None)
        }
        ObCall::Disable => {
            b.disable_trading();
            (Value::Null, None)
        }
        ObCall::SetTime { dt } => {
            b.set_time(b.get_time() + dt);
            (Value::Null, None)
        }
        ObCall::Overflow(_) => (Value::Null, Some("OverflowError")),
    }
}

/// sweep both sides of a scratch copy: exposes the hidden queue order (same probe as in E1)
fn ob_drain(b: &mut OrderBook) -> Value {
    b.enable_trading();
    let n0 = b.get_trades().len();
    let t = b.get_time() + 1;
    b.set_time(t);
    let v = b.ask_vol() + 1;
    let _ = b.create_and_place_order(side_of(true), v, 9, None);
    b.set_time(t + 1);
    let v = b.bid_vol() + 1;
    let _ = b.create_and_place_order(side_of(false), v, 9, None);
    let tr: Vec<TradeRec> = b.get_trades()[n0..].iter().map(TradeRec::of).collect();
    trades_json(&tr)
}

fn ob_alphabet(n_orders: usize, with_overflow: bool) -> Vec<ObCall> {
    let mut v = Vec::new();
    for bid in [true, false] {
        for price in [2 * TICK, 3 * TICK] {
            v.push(ObCall::Place { bid, vol: 2, price: Some(price) });
        }
        v.push(ObCall::Place { bid, vol: 1, price: Some(2 * TICK) });
        v.push(ObCall::Place { bid, vol: 3, price: None });
    }
    v.push(ObCall::Place { bid: true, vol: 1, price: Some(2 * TICK + 1) }); // off grid -> ValueError
    v.push(ObCall::Place { bid: false, vol: 1, price: Some(3 * TICK - 1) });
    for id in 0..n_orders {
        v.push(ObCall::Cancel { id });
        v.push(ObCall::Modify { id, price: Some(3 * TICK), vol: None });
        v.push(ObCall::Modify { id, price: None, vol: Some(1) });
        v.push(ObCall::Modify { id, price: Some(2 * TICK), vol: Some(3) });
        v.push(ObCall::Modify { id, price: None, vol: None });
    }
    v.push(ObCall::Disable);
    v.push(ObCall::Enable);
    v.push(ObCall::SetTime { dt: 5 });
    if with_overflow {
        v.push(ObCall::Overflow(json!(["place", true, "-1", 7, 4])));
        v.push(ObCall::Overflow(json!(["place", true, "2**32", 7, 4])));
        v.push(ObCall::Overflow(json!(["place", false, 1, "2**32", 4])));
        v.push(ObCall::Overflow(json!(["place", false, 1, "-1", 4])));
        v.push(ObCall::Overflow(json!(["place", false, 1, 7, "2**32"])));
        v.push(ObCall::Overflow(json!(["place", false, 1, 7, "-1"])));
        v.push(ObCall::Overflow(json!(["set_time", "2**64"])));
        v.push(ObCall::Overflow(json!(["set_time", "-1"])));
        if n_orders > 0 {
            v.push(ObCall::Overflow(json!(["modify", 0, "2**32", Value::Null])));
            v.push(ObCall::Overflow(json!(["modify", 0, Value::Null, "-1"])));
            v.push(ObCall::Overflow(json!(["cancel", "2**64"])));
            v.push(ObCall::Overflow(json!(["cancel", "-1"])));
        }
    }
    v
}

/// few calls, so that longer sequences can be enumerated: crossing placements at two prices,
/// cancels, one re-pricing modify per order, trading toggles
fn ob_alphabet_reduced(n_orders: usize) -> Vec<ObCall> {
    let mut v = Vec::new();
    for bid in [true, false] {
        for price in [2 * TICK, 3 * TICK] {
            v.push(ObCall::Place { bid, vol: 2, price: Some(price) });
        }
    }
    for id in 0..n_orders {
        v.push(ObCall::Cancel { id });
        v.push(ObCall::Modify { id, price: Some(if id % 2 == 0 { 3 * TICK } else { 2 * TICK }), vol: None });
    }
    v.push(ObCall::Disable);
    v.push(ObCall::Enable);
    v
}

thread_local! {
    static OB_REDUCED: std::cell::Cell<bool> = std::cell::Cell::new(false);
}

fn ob_build(calls: &[ObCall]) -> OrderBook {
    let mut b: OrderBook = OrderBook::new(0, ob_tick(), start_trading());
    for (k, c) in calls.iter().enumerate() {
        ob_apply(&mut b, k, c);
    }
    b
}

struct Writer {
    f: std::io::BufWriter<std::fs::File>,
    n: u64,
    calls: u64,
}

fn ob_rec(w: &mut Writer, dir: &str, hist: &mut Vec<ObCall>, depth_left: usize, snap_depth: usize, rust_snaps: &mut Vec<(u64, Vec<ObCall>)>) {
    if depth_left == 0 {
        return;
    }
    let base = ob_build(hist);
    let n_orders = base.get_orders().len();
    drop(base);
    let alphabet = if OB_REDUCED.with(|r| r.get()) { ob_alphabet_reduced(n_orders) } else { ob_alphabet(n_orders, true) };
    for c in alphabet {
        let mut b = ob_build(hist);
        let k = hist.len();
        let (ret, exc) = ob_apply(&mut b, k, &c);
        hist.push(c.clone());
        let id = w.n;
        w.n += 1;
        w.calls += hist.len() as u64;
        let calls_json: Vec<Value> = hist
            .iter()
            .enumerate()
            .map(|(i, c)| {
                let nb = ob_build(&hist[..i]).get_orders().len() as u32;
                ob_call_json(c, 100 + nb)
            })
            .collect();
        let state = ob_state(&b);
        let mut line = json!({"id": id, "kind": "ob", "tick": ob_tick(), "trading": start_trading(), "calls": calls_json, "exp": {"ret": ret, "exc": exc, "state": state}});
        if hist.len() <= snap_depth && exc.is_none() {
            // snapshot exchange in both directions
            let rs = format!("{}/rust_snap_{}.json", dir, id);
            let _ = b.save_json(&rs, id % 2 == 0);
            line["snap_in"] = json!(rs);
            line["snap_out"] = json!(format!("{}/py_snap_{}.json", dir, id));
            rust_snaps.push((id, hist.clone()));
        }
        line["exp"]["drain"] = ob_drain(&mut b);
        writeln!(w.f, "{}", line).unwrap();
        if exc.is_none() {
            ob_rec(w, dir, hist, depth_left - 1, snap_depth, rust_snaps);
        }
        hist.pop();
    }
}

// ------------------------------------------------------------------------------------------
// StepEnv traces
// ------------------------------------------------------------------------------------------

#[derive(Clone, Debug)]
enum EnvCall {
    Place { bid: bool, vol: u32, price: Option<u32> },
    Cancel { id: usize },
    Modify { id: usize, price: Option<u32>, vol: Option<u32> },
    Step,
    Enable,
    Disable,
    Overflow(Value),
}

fn env_call_json(c: &EnvCall, trader: u32) -> Value {
    match c {
        EnvCall::Place { bid, vol, price } => json!(["place", bid, vol, trader, price]),
        EnvCall::Cancel { id } => json!(["cancel", id]),
        EnvCall::Modify { id, price, vol } => json!(["modify", id, price, vol]),
        EnvCall::Step => json!(["step"]),
        EnvCall::Enable => json!(["enable"]),
        EnvCall::Disable => json!(["disable"]),
        EnvCall::Overflow(v) => v.clone(),
    }
}

struct EnvW {
    env: Env,
    rng: Xoroshiro128StarStar,
}

thread_local! {
    /// step size of the environments of the trace set being generated
    static STEP_SIZE: std::cell::Cell<u64> = std::cell::Cell::new(100);
}

fn step_size() -> u64 {
    STEP_SIZE.with(|s| s.get())
}

thread_local! {
    static ENV_TICK: std::cell::Cell<u32> = std::cell::Cell::new(TICK);
    static ENV_START: std::cell::Cell<u64> = std::cell::Cell::new(0);
    static OB_TICK: std::cell::Cell<u32> = std::cell::Cell::new(TICK);
    static START_TRADING: std::cell::Cell<bool> = std::cell::Cell::new(true);
}
fn start_trading() -> bool {
    START_TRADING.with(|s| s.get())
}
fn env_tick() -> u32 {
    ENV_TICK.with(|s| s.get())
}
fn env_start() -> u64 {
    ENV_START.with(|s| s.get())
}
fn ob_tick() -> u32 {
    OB_TICK.with(|s| s.get())
}

fn env_new(seed: u64) -> EnvW {
    EnvW { env: Env::new(env_start(), env_tick(), step_size(), start_trading()), rng: Xoroshiro128StarStar::seed_from_u64(seed) }
}

fn env_apply(w: &mut EnvW, c: &EnvCall) -> (Value, Option<&'static str>) {
    let n = w.env.get_orders().len();
    match c {
        EnvCall::Place { bid, vol, price } => match w.env.place_order(side_of(*bid), *vol, 100 + n as u32, *price) {
            Ok(i) => (json!(i), None),
            Err(_) => (Value::Null, Some("ValueError")),
        },
        EnvCall::Cancel { id } => {
            w.env.cancel_order(*id);
            (Value::Null, None)
        }
        EnvCall::Modify { id, price, vol } => {
            w.env.modify_order(*id, *price, *vol);
            (Value::Null, None)
        }
        EnvCall::Step => {
            w.env.step(&mut w.rng);
            (Value::Null, None)
        }
        EnvCall::Enable => {
            w.env.enable_trading();
            (Value::Null, None)
        }
        EnvCall::Disable => {
            w.env.disable_trading();
            (Value::Null, None)
        }
        EnvCall::Overflow(_) => (Value::Null, Some("OverflowError")),
    }
}

fn env_state(w: &EnvW) -> Value {
    let e = &w.env;
    let l2 = e.level_2_data();
    let orders: Vec<OrderRec> = e.get_orders().into_iter().map(OrderRec::of).collect();
    let trades: Vec<TradeRec> = e.get_trades().iter().map(TradeRec::of).collect();
    let h = e.get_level_2_data_history();
    let mut hist = serde_json::Map::new();
    hist.insert("bid_price".into(), json!(h.prices.0));
    hist.insert("ask_price".into(), json!(h.prices.1));
    hist.insert("bid_vol".into(), json!(h.volumes.0));
    hist.insert("ask_vol".into(), json!(h.volumes.1));
    hist.insert("trade_vol".into(), json!(e.get_trade_vols()));
    for i in 0..10 {
        hist.insert(format!("bid_vol_{}", i), json!(h.volumes_at_levels.0[i]));
        hist.insert(format!("ask_vol_{}", i), json!(h.volumes_at_levels.1[i]));
        hist.insert(format!("n_bid_{}", i), json!(h.orders_at_levels.0[i]));
        hist.insert(format!("n_ask_{}", i), json!(h.orders_at_levels.1[i]));
    }
    let mut named = serde_json::Map::new();
    named.insert("trade_vol".into(), json!(e.get_orderbook().get_trade_vol()));
    named.insert("bid_price".into(), json!(l2.bid_price));
    named.insert("ask_price".into(), json!(l2.ask_price));
    named.insert("bid_vol".into(), json!(l2.bid_vol));
    named.insert("ask_vol".into(), json!(l2.ask_vol));
    named.insert("bid_touch_vol".into(), json!(l2.bid_price_levels[0].0));
    named.insert("bid_touch_orders".into(), json!(l2.bid_price_levels[0].1));
    named.insert("ask_touch_vol".into(), json!(l2.ask_price_levels[0].0));
    named.insert("ask_touch_orders".into(), json!(l2.ask_price_levels[0].1));
    for i in 0..10 {
        named.insert(format!("bid_vol_{}", i), json!(l2.bid_price_levels[i].0));
        named.insert(format!("n_bid_{}", i), json!(l2.bid_price_levels[i].1));
        named.insert(format!("ask_vol_{}", i), json!(l2.ask_price_levels[i].0));
        named.insert(format!("n_ask_{}", i), json!(l2.ask_price_levels[i].1));
    }
    json!({
        "time": e.get_orderbook().get_time(),
        "bid_ask": [l2.bid_price, l2.ask_price],
        "bid_vol": l2.bid_vol, "ask_vol": l2.ask_vol,
        "best_bid_vol": l2.bid_price_levels[0].0, "best_ask_vol": l2.ask_price_levels[0].0,
        "best_bid_vol_and_orders": [l2.bid_price_levels[0].0, l2.bid_price_levels[0].1],
        "best_ask_vol_and_orders": [l2.ask_price_levels[0].0, l2.ask_price_levels[0].1],
        "trade_vol": e.get_orderbook().get_trade_vol(),
        "orders": orders_json(&orders), "trades": trades_json(&trades),
        "prices": [h.prices.0, h.prices.1], "volumes": [h.volumes.0, h.volumes.1],
        "touch_volumes": [h.volumes_at_levels.0[0], h.volumes_at_levels.1[0]],
        "touch_order_counts": [h.orders_at_levels.0[0], h.orders_at_levels.1[0]],
        "trade_volumes": e.get_trade_vols(),
        "named": named, "history": hist,
        "asymmetric": l2.bid_vol != l2.ask_vol || l2.bid_price_levels != l2.ask_price_levels,
    })
}

/// two sweeping market orders, one step each (consumes the environment)
fn env_drain(w: &mut EnvW) -> Value {
    w.env.enable_trading();
    let n0 = w.env.get_trades().len();
    let v = w.env.get_orderbook().ask_vol() + 1;
    let _ = w.env.place_order(side_of(true), v, 9, None);
    w.env.step(&mut w.rng);
    let v = w.env.get_orderbook().bid_vol() + 1;
    let _ = w.env.place_order(side_of(false), v, 9, None);
    w.env.step(&mut w.rng);
    let tr: Vec<TradeRec> = w.env.get_trades()[n0..].iter().map(TradeRec::of).collect();
    trades_json(&tr)
}

fn env_alphabet(n_orders: usize, with_overflow: bool, rich: bool, lo: u32) -> Vec<EnvCall> {
    // `lo` = lower of the two main prices in ticks (2 for the empty start, deeper for the deep-book base)
    let mut v = Vec::new();
    for bid in [true, false] {
        for price in [lo * TICK, (lo + 1) * TICK] {
            v.push(EnvCall::Place { bid, vol: if bid { 2 } else { 3 }, price: Some(price) });
        }
        if rich {
            v.push(EnvCall::Place { bid, vol: 1, price: Some(if bid { (lo - 1) * TICK } else { (lo + 2) * TICK }) });
        }
        v.push(EnvCall::Place { bid, vol: 4, price: None });
    }
    v.push(EnvCall::Place { bid: true, vol: 1, price: Some(lo * TICK + 1) });
    for id in 0..n_orders {
        v.push(EnvCall::Cancel { id });
        v.push(EnvCall::Modify { id, price: Some((lo + 1) * TICK), vol: None });
        v.push(EnvCall::Modify { id, price: None, vol: None });
        if rich {
            v.push(EnvCall::Modify { id, price: None, vol: Some(1) });
            // an unusual but accepted argument: the order stays active with nothing left
            v.push(EnvCall::Modify { id, price: None, vol: Some(0) });
        }
    }
    v.push(EnvCall::Step);
    if rich {
        v.push(EnvCall::Disable);
        v.push(EnvCall::Enable);
    }
    if with_overflow {
        v.push(EnvCall::Overflow(json!(["place", true, "2**32", 7, 4])));
        v.push(EnvCall::Overflow(json!(["place", true, 1, 7, "-1"])));
        if n_orders > 0 {
            v.push(EnvCall::Overflow(json!(["cancel", "-1"])));
            v.push(EnvCall::Overflow(json!(["modify", 0, "2**32", Value::Null])));
        }
    }
    v
}

fn env_build(seed: u64, calls: &[EnvCall]) -> EnvW {
    let mut w = env_new(seed);
    for c in calls {
        env_apply(&mut w, c);
    }
    w
}

fn env_rec(w: &mut Writer, seed: u64, hist: &mut Vec<EnvCall>, depth_left: usize, rich: bool, overflow: bool, lo: u32, max_ids: usize) {
    if depth_left == 0 {
        return;
    }
    let n_orders = env_build(seed, hist).env.get_orders().len();
    for c in env_alphabet(n_orders.min(max_ids), overflow, rich, lo) {
        let mut e = env_build(seed, hist);
        let (ret, exc) = env_apply(&mut e, &c);
        hist.push(c.clone());
        let id = w.n;
        w.n += 1;
        w.calls += hist.len() as u64;
        let mut nb = 0u32;
        let mut calls_json = Vec::new();
        {
            let mut e2 = env_new(seed);
            for c in hist.iter() {
                calls_json.push(env_call_json(c, 100 + nb));
                env_apply(&mut e2, c);
                nb = e2.env.get_orders().len() as u32;
            }
        }
        let st = env_state(&e);
        let drain = env_drain(&mut e);
        let line = json!({"id": id, "kind": "env", "seed": seed, "tick": env_tick(), "start": env_start(), "step_size": step_size(), "calls": calls_json, "exp": {"ret": ret, "exc": exc, "state": st, "drain": drain}});
        writeln!(w.f, "{}", line).unwrap();
        if exc.is_none() {
            env_rec(w, seed, hist, depth_left - 1, rich, overflow, lo, max_ids);
        }
        hist.pop();
    }
}

// ------------------------------------------------------------------------------------------
// scripted traces: fixed call lists with unusual constructor arguments and magnitudes; every
// prefix is one trace. Prefixes on which the Rust core itself aborts (volumes that do not fit)
// are not valid histories and are left out.
// ------------------------------------------------------------------------------------------

fn env_scripted(w: &mut Writer, seed: u64, tick: u32, start: u64, ss: u64, calls: &[EnvCall]) {
    env_scripted_from(w, seed, tick, start, ss, calls, 1)
}

/// only the complete sequence is written as a trace (not every prefix)
fn env_scripted_last(w: &mut Writer, seed: u64, tick: u32, start: u64, ss: u64, calls: &[EnvCall]) {
    env_scripted_from(w, seed, tick, start, ss, calls, calls.len())
}

fn env_scripted_from(w: &mut Writer, seed: u64, tick: u32, start: u64, ss: u64, calls: &[EnvCall], first: usize) {
    ENV_TICK.with(|s| s.set(tick));
    ENV_START.with(|s| s.set(start));
    STEP_SIZE.with(|s| s.set(ss));
    for k in first.max(1)..=calls.len() {
        let hist = &calls[..k];
        let r = crate::util::subject(|| {
            let mut e = env_build(seed, &hist[..k - 1]);
            let (ret, exc) = env_apply(&mut e, &hist[k - 1]);
            let st = env_state(&e);
            (ret, exc, st)
        });
        let Ok((ret, exc, st)) = r else { break };
        let drain = crate::util::subject(|| {
            let mut e = env_build(seed, hist);
            env_drain(&mut e)
        })
        .unwrap_or(Value::Null);
        let mut nb = 0u32;
        let mut calls_json = Vec::new();
        let mut e2 = env_new(seed);
        for c in hist.iter() {
            calls_json.push(env_call_json(c, 100 + nb));
            env_apply(&mut e2, c);
            nb = e2.env.get_orders().len() as u32;
        }
        let id = w.n;
        w.n += 1;
        w.calls += hist.len() as u64;
        let line = json!({"id": id, "kind": "env", "seed": seed, "tick": tick, "start": start, "step_size": ss, "trading": start_trading(), "calls": calls_json, "exp": {"ret": ret, "exc": exc, "state": st, "drain": drain}});
        writeln!(w.f, "{}", line).unwrap();
    }
    ENV_TICK.with(|s| s.set(TICK));
    ENV_START.with(|s| s.set(0));
    STEP_SIZE.with(|s| s.set(100));
}

/// one long call sequence written as ONE trace (only the final state is compared; the driver
/// reads nothing in between): thresholds on the number of instructions waiting for a step
fn env_bulk(w: &mut Writer, seed: u64, tick: u32, ss: u64, calls: &[EnvCall]) {
    ENV_TICK.with(|s| s.set(tick));
    STEP_SIZE.with(|s| s.set(ss));
    let r = crate::util::subject(|| {
        let mut e = env_new(seed);
        let mut calls_json = Vec::with_capacity(calls.len());
        let mut last = (Value::Null, None);
        for c in calls {
            let nb = e.env.get_orders().len() as u32;
            calls_json.push(env_call_json(c, 100 + nb));
            last = env_apply(&mut e, c);
        }
        (calls_json, last, env_state(&e))
    });
    if let Ok((calls_json, (ret, exc), st)) = r {
        let id = w.n;
        w.n += 1;
        w.calls += calls.len() as u64;
        let line = json!({"id": id, "kind": "env", "bulk": true, "seed": seed, "tick": tick, "start": 0, "step_size": ss, "trading": true, "calls": calls_json, "exp": {"ret": ret, "exc": exc, "state": st, "drain": Value::Null}});
        writeln!(w.f, "{}", line).unwrap();
    }
    ENV_TICK.with(|s| s.set(TICK));
    STEP_SIZE.with(|s| s.set(100));
}

fn scripted_bulk_sets(w: &mut Writer) {
    // more than 2^16 instructions waiting for one step, twice
    let mut calls: Vec<EnvCall> = Vec::new();
    for i in 0..66_000u32 {
        calls.push(EnvCall::Place { bid: i % 2 == 0, vol: 1 + i % 3, price: Some(if i % 2 == 0 { 2 * TICK } else { 4 * TICK }) });
    }
    calls.push(EnvCall::Step);
    for i in 0..33_000usize {
        calls.push(EnvCall::Modify { id: 2 * i, price: None, vol: Some(1) });
        calls.push(EnvCall::Cancel { id: 2 * i + 1 });
    }
    calls.push(EnvCall::Place { bid: true, vol: 5, price: None });
    calls.push(EnvCall::Step);
    env_bulk(w, 9, TICK, 1_000_000, &calls);
}

/// books with GAPS: published levels are fixed tick offsets from the touch, not a list of the
/// populated ones (levels 1-2 and 4-5 empty on both sides, deeper ones populated; one-sided gaps)
fn scripted_gap_sets(w: &mut Writer) {
    for tick in [1u32, 2, 5] {
        let c = 500 * tick;
        let calls = vec![
            EnvCall::Place { bid: true, vol: 3, price: Some(c - tick) },
            EnvCall::Place { bid: false, vol: 4, price: Some(c + tick) },
            EnvCall::Place { bid: true, vol: 5, price: Some(c - 4 * tick) },
            EnvCall::Place { bid: false, vol: 6, price: Some(c + 4 * tick) },
            EnvCall::Step,
            EnvCall::Place { bid: true, vol: 7, price: Some(c - 7 * tick) },
            EnvCall::Place { bid: false, vol: 2, price: Some(c + 10 * tick) },
            EnvCall::Step,
            EnvCall::Place { bid: false, vol: 1, price: Some(c + 2 * tick) },
            EnvCall::Cancel { id: 0 },
            EnvCall::Step,
            EnvCall::Cancel { id: 3 },
            EnvCall::Step,
        ];
        env_scripted(w, 70 + tick as u64, tick, 0, 100, &calls);
    }
}

/// many distinct populated price levels per side, for tick sizes above 1 too
fn scripted_ladder_sets(w: &mut Writer) {
    for (tick, n) in [(1u32, 40u32), (2, 40), (5, 36), (2, 12)] {
        let centre = 1000 * tick;
        let mut calls: Vec<EnvCall> = Vec::new();
        for i in 0..n {
            calls.push(EnvCall::Place { bid: true, vol: 1 + (i * 3) % 7, price: Some(centre - (1 + i) * tick) });
            calls.push(EnvCall::Place { bid: false, vol: 2 + (i * 5) % 7, price: Some(centre + (1 + i) * tick) });
            if i % 4 == 3 {
                calls.push(EnvCall::Step);
            }
        }
        calls.push(EnvCall::Step);
        // slide the published window: cancel the touch orders
        for k in 0..6usize {
            calls.push(EnvCall::Cancel { id: 2 * k });
            calls.push(EnvCall::Cancel { id: 2 * k + 1 });
            calls.push(EnvCall::Step);
        }
        // only the traces that end with a step are interesting (and keep the number of traces low)
        let ends: Vec<usize> = (1..=calls.len()).filter(|k| matches!(calls[k - 1], EnvCall::Step)).collect();
        for k in ends {
            env_scripted_last(w, 60 + tick as u64, tick, 0, 100, &calls[..k]);
        }
    }
}

fn ob_scripted(w: &mut Writer, tick: u32, calls: &[ObCall]) {
    OB_TICK.with(|s| s.set(tick));
    for k in 1..=calls.len() {
        let hist = &calls[..k];
        let r = crate::util::subject(|| {
            let mut b = ob_build(&hist[..k - 1]);
            let (ret, exc) = ob_apply(&mut b, k - 1, &hist[k - 1]);
            (ret, exc, ob_state(&b))
        });
        let Ok((ret, exc, state)) = r else { break };
        let drain = crate::util::subject(|| {
            let mut b = ob_build(hist);
            ob_drain(&mut b)
        })
        .unwrap_or(Value::Null);
        let calls_json: Vec<Value> = hist.iter().enumerate().map(|(i, c)| ob_call_json(c, 100 + ob_build(&hist[..i]).get_orders().len() as u32)).collect();
        let id = w.n;
        w.n += 1;
        w.calls += hist.len() as u64;
        let line = json!({"id": id, "kind": "ob", "tick": tick, "trading": start_trading(), "calls": calls_json, "exp": {"ret": ret, "exc": exc, "state": state, "drain": drain}});
        writeln!(w.f, "{}", line).unwrap();
    }
    OB_TICK.with(|s| s.set(TICK));
}

/// unusual constructor arguments and magnitudes for the environment
fn scripted_env_sets(w: &mut Writer) {
    let ticks: [u32; 11] = [1, 3, 7, 10, 100, 65_535, 65_536, 450_000_000, 1 << 31, 3_000_000_000, u32::MAX];
    for (i, &tick) in ticks.iter().enumerate() {
        for (start, ss) in [(0u64, 100u64), (1 << 40, 1 << 33), (7, 1)] {
            let mut calls = vec![EnvCall::Place { bid: true, vol: 2, price: Some(tick) }];
            if let Some(p2) = tick.checked_mul(2) {
                calls.push(EnvCall::Place { bid: false, vol: 3, price: Some(p2) });
            }
            calls.push(EnvCall::Place { bid: true, vol: 1, price: Some(0) });
            calls.push(EnvCall::Step);
            calls.push(EnvCall::Cancel { id: 0 });
            calls.push(EnvCall::Place { bid: false, vol: 1, price: None });
            calls.push(EnvCall::Step);
            calls.push(EnvCall::Step);
            env_scripted(w, 20 + i as u64, tick, start, ss, &calls);
        }
    }
    // volumes around 2^31: a crossing order whose own side could not hold it if it rested
    for tick in [1u32, 2] {
        let calls = vec![
            EnvCall::Place { bid: true, vol: 3_000_000_000, price: Some(90 * tick) },
            EnvCall::Place { bid: false, vol: 2_000_000_000, price: Some(100 * tick) },
            EnvCall::Step,
            EnvCall::Place { bid: true, vol: 2_000_000_000, price: Some(100 * tick) },
            EnvCall::Step,
            EnvCall::Modify { id: 0, price: Some(95 * tick), vol: None },
            EnvCall::Place { bid: false, vol: 4_000_000_000, price: None },
            EnvCall::Step,
        ];
        env_scripted(w, 40, tick, 1 << 40, 1000, &calls);
    }
    // limit prices at both ends of the axis (tick 1 and 5: 2^32-1 is on the grid)
    for tick in [1u32, 5] {
        let calls = vec![
            EnvCall::Place { bid: false, vol: 4, price: Some(u32::MAX) },
            EnvCall::Place { bid: false, vol: 2, price: Some(u32::MAX - 2 * tick) },
            EnvCall::Place { bid: true, vol: 3, price: Some(0) },
            EnvCall::Place { bid: true, vol: 1, price: Some(tick) },
            EnvCall::Step,
            EnvCall::Cancel { id: 1 },
            EnvCall::Cancel { id: 3 },
            EnvCall::Step,
            EnvCall::Place { bid: true, vol: 1, price: None },
            EnvCall::Step,
        ];
        env_scripted(w, 41, tick, 0, 100, &calls);
    }
}

/// objects constructed with trading switched off
fn scripted_trading_off_sets(w: &mut Writer) {
    START_TRADING.with(|s| s.set(false));
    let calls = vec![
        EnvCall::Place { bid: true, vol: 2, price: Some(6) },
        EnvCall::Place { bid: false, vol: 3, price: Some(4) },
        EnvCall::Place { bid: true, vol: 1, price: None },
        EnvCall::Step,
        EnvCall::Enable,
        EnvCall::Place { bid: false, vol: 1, price: None },
        EnvCall::Modify { id: 1, price: Some(4), vol: None },
        EnvCall::Step,
        EnvCall::Disable,
        EnvCall::Step,
    ];
    env_scripted(w, 50, 2, 0, 100, &calls);
    env_scripted(w, 51, 2, 5, 1, &calls);
    let calls = vec![
        ObCall::Place { bid: true, vol: 2, price: Some(6) },
        ObCall::Place { bid: false, vol: 3, price: Some(4) },
        ObCall::Place { bid: true, vol: 1, price: None },
        ObCall::Enable,
        ObCall::Place { bid: false, vol: 1, price: None },
        ObCall::Modify { id: 1, price: Some(4), vol: None },
        ObCall::Disable,
        ObCall::Modify { id: 0, price: None, vol: Some(1) },
    ];
    ob_scripted(w, 2, &calls);
    START_TRADING.with(|s| s.set(true));
}

fn scripted_ob_sets(w: &mut Writer) {
    for tick in [1u32, 2, 10] {
        let calls = vec![
            ObCall::Place { bid: true, vol: 3_000_000_000, price: Some(90 * tick) },
            ObCall::Place { bid: false, vol: 2_000_000_000, price: Some(100 * tick) },
            ObCall::Place { bid: true, vol: 2_000_000_000, price: Some(100 * tick) },
            ObCall::Modify { id: 0, price: None, vol: Some(1_000) },
            ObCall::Place { bid: false, vol: 1_500_000_000, price: Some(95 * tick) },
            ObCall::Place { bid: false, vol: 4_000_000_000, price: Some(95 * tick) },
            ObCall::SetTime { dt: 1 << 40 },
            ObCall::Place { bid: true, vol: 70_000, price: None },
        ];
        ob_scripted(w, tick, &calls);
    }
    for tick in [450_000_000u32, 1 << 31, u32::MAX, 65_536] {
        let mut calls = vec![ObCall::Place { bid: true, vol: 2, price: Some(tick) }];
        if let Some(p2) = tick.checked_mul(2) {
            calls.push(ObCall::Place { bid: false, vol: 3, price: Some(p2) });
        }
        calls.push(ObCall::Place { bid: true, vol: 1, price: Some(0) });
        calls.push(ObCall::Place { bid: false, vol: 1, price: None });
        calls.push(ObCall::Cancel { id: 0 });
        ob_scripted(w, tick, &calls);
    }
}

// ------------------------------------------------------------------------------------------
// orchestration
// ------------------------------------------------------------------------------------------

fn work_dir(tag: &str) -> String {
    let d = format!("{}/pytrace-{}-{}", std::env::var("VERIF_BUILD").unwrap_or_else(|_| "/verif/.build".into()), tag, std::process::id());
    let _ = std::fs::remove_dir_all(&d);
    std::fs::create_dir_all(&d).unwrap();
    d
}

fn build_ext(out: &mut Outcome) -> bool {
    let st = std::process::Command::new("/verif/py/build_ext.sh").status();
    match st {
        Ok(s) if s.success() => true,
        other => {
            out.machinery_errors.push(format!("building the Python extension failed: {:?}", other));
            false
        }
    }
}

fn run_driver(out: &mut Outcome, mode: &str, dir: &str) -> Option<Value> {
    // the interpreter is single-threaded: the trace file is replayed by several driver
    // processes, each taking every k-th trace
    let shards = crate::util::n_threads().clamp(1, 12);
    let mut kids = Vec::new();
    for i in 0..shards {
        let res = format!("{}/result-{}.json", dir, i);
        let ch = std::process::Command::new("python3-vt")
            .arg("/verif/py/driver.py")
            .arg(mode)
            .arg(dir)
            .arg(&res)
            .arg(i.to_string())
            .arg(shards.to_string())
            .spawn();
        kids.push((res, ch));
    }
    let mut merged = json!({"traces": 0u64, "calls": 0u64, "failures": [], "counters": {}});
    let mut by_sig: std::collections::BTreeMap<String, Value> = Default::default();
    for (res, ch) in kids {
        let st = ch.and_then(|mut c| c.wait());
        match st {
            Ok(s) if s.success() => {}
            other => {
                out.machinery_errors.push(format!("python driver failed: {:?}", other));
                return None;
            }
        }
        let Some(v) = std::fs::read_to_string(&res).ok().and_then(|s| serde_json::from_str::<Value>(&s).ok()) else {
            out.machinery_errors.push("python driver wrote no readable result".into());
            return None;
        };
        for k in ["traces", "calls"] {
            merged[k] = json!(merged[k].as_u64().unwrap_or(0) + v[k].as_u64().unwrap_or(0));
        }
        for k in ["python", "numpy", "module"] {
            merged[k] = v[k].clone();
        }
        if let Some(c) = v["counters"].as_object() {
            for (k, n) in c {
                let cur = merged["counters"][k].as_u64().unwrap_or(0);
                merged["counters"][k] = json!(cur + n.as_u64().unwrap_or(0));
            }
        }
        if let Some(fs) = v["failures"].as_array() {
            for f in fs {
                let sig = f["sig"].as_str().unwrap_or("python/unknown").to_string();
                let len = |x: &Value| x["trace"]["calls"].as_array().map_or(usize::MAX, |a| a.len());
                match by_sig.get(&sig) {
                    Some(old) if len(old) <= len(f) => {}
                    _ => {
                        by_sig.insert(sig, f.clone());
                    }
                }
            }
        }
    }
    merged["failures"] = json!(by_sig.into_values().collect::<Vec<_>>());
    Some(merged)
}

fn absorb_driver(out: &mut Outcome, v: &Value) {
    out.add_u64("traces_validated_against_impl", v["traces"].as_u64().unwrap_or(0));
    out.add_u64("transitions", v["calls"].as_u64().unwrap_or(0));
    out.set("python", json!({"version": v["python"], "numpy": v["numpy"], "module": v["module"]}));
    if let Some(c) = v.get("counters") {
        out.set("driver_counters", c.clone());
    }
    if let Some(fs) = v["failures"].as_array() {
        for f in fs {
            out.fail_other(
                f["sig"].as_str().unwrap_or("python/unknown"),
                f["detail"].as_str().unwrap_or("").to_string(),
                json!({"engine": "pytrace", "trace": f["trace"]}),
            );
        }
    }
}

pub fn c18(tier: &str) -> i32 {
    let mut out = Outcome::new("C18", tier, "model_checking");
    let t = tier == "thorough";
    if !build_ext(&mut out) {
        return out.finish();
    }
    let dir = work_dir("c18");
    let mut w = Writer { f: std::io::BufWriter::new(std::fs::File::create(format!("{}/traces.jsonl", dir)).unwrap()), n: 0, calls: 0 };
    let mut rust_snaps = Vec::new();
    ob_rec(&mut w, &dir, &mut Vec::new(), if t { 4 } else { 3 }, 3, &mut rust_snaps);
    // longer sequences over a reduced alphabet, from books constructed with trading on and off
    // (state a wrapper may carry from one call to the next needs a history to go stale)
    OB_REDUCED.with(|r| r.set(true));
    for start in [true, false] {
        START_TRADING.with(|s| s.set(start));
        let mut none = Vec::new();
        ob_rec(&mut w, &dir, &mut Vec::new(), if t { 5 } else { 4 }, 0, &mut none);
    }
    START_TRADING.with(|s| s.set(true));
    OB_REDUCED.with(|r| r.set(false));
    let n_ob = w.n;
    for seed in [0u64, 1, 101] {
        env_rec(&mut w, seed, &mut Vec::new(), if t { 5 } else { 4 }, seed == 0, seed != 1, 2, usize::MAX);
    }
    // degenerate but accepted step sizes: the clock does not move (0) or moves by less than a batch (1)
    for (ss, seed) in [(0u64, 5u64), (1, 6)] {
        STEP_SIZE.with(|s| s.set(ss));
        env_rec(&mut w, seed, &mut Vec::new(), if t { 5 } else { 4 }, false, false, 2, usize::MAX);
    }
    STEP_SIZE.with(|s| s.set(100));
    scripted_env_sets(&mut w);
    scripted_ob_sets(&mut w);
    scripted_trading_off_sets(&mut w);
    scripted_bulk_sets(&mut w);
    w.f.flush().unwrap();
    let n_total = w.n;
    out.set("states", json!(n_total));
    out.set("order_book_traces", json!(n_ob));
    out.set("step_env_traces", json!(n_total - n_ob));
    out.set("snapshots_exchanged_each_way", json!(rust_snaps.len()));
    drop(w);
    if let Some(v) = run_driver(&mut out, "c18", &dir) {
        absorb_driver(&mut out, &v);
        // Python -> Rust snapshots
        let mut loaded = 0u64;
        for (id, hist) in &rust_snaps {
            let path = format!("{}/py_snap_{}.json", dir, id);
            match crate::util::subject(|| OrderBook::<10>::load_json(&path)) {
                Ok(Ok(b)) => {
                    loaded += 1;
                    let want = ob_build(hist);
                    let (a, e) = (Snap::take(&b), Snap::take(&want));
                    if a != e {
                        out.fail_other(
                            "python/snapshot-written-by-python-loads-differently-in-rust",
                            e.describe_diff(&a),
                            json!({"trace_id": id}),
                        );
                    } else {
                        // indistinguishable under continuation too: sweep both
                        let (mut b, mut want) = (b, want);
                        let (da, de) = (ob_drain(&mut b), ob_drain(&mut want));
                        if da != de {
                            out.fail_other(
                                "python/snapshot-written-by-python-executes-differently-in-rust",
                                format!("sweeping the loaded book executes {} but the original {}", da, de),
                                json!({"trace_id": id}),
                            );
                        }
                    }
                }
                Ok(Err(e)) => out.fail_other("python/snapshot-written-by-python-rejected-by-rust", e.to_string(), json!({"trace_id": id})),
                Err(m) => out.fail_other("python/snapshot-written-by-python-panics-rust", m, json!({"trace_id": id})),
            }
        }
        out.set("python_snapshots_loaded_in_rust", json!(loaded));
        if loaded == 0 {
            out.machinery_errors.push("no Python-written snapshot was loaded".into());
        }
    }
    out.push("samples", json!({"kind": "OrderBook trace", "calls": [["place", true, 2, 100, 4], ["place", false, 2, 101, 4], ["cancel", 0]], "judged": "return value / exception of the last call and every getter afterwards"}));
    let _ = std::fs::remove_dir_all(&dir);
    out.assumptions = vec![
        "one interpreter: CPython (python3-vt) with numpy from the tooling venv; the extension is loaded directly as module `core`".into(),
        "expected values come from the Rust crates driven by the same call sequence".into(),
    ];
    out.finish()
}

pub fn c19(tier: &str) -> i32 {
    let mut out = Outcome::new("C19", tier, "model_checking");
    let t = tier == "thorough";
    if !build_ext(&mut out) {
        return out.finish();
    }
    let dir = work_dir("c19");
    let mut w = Writer { f: std::io::BufWriter::new(std::fs::File::create(format!("{}/traces.jsonl", dir)).unwrap()), n: 0, calls: 0 };
    for seed in [0u64, 7] {
        env_rec(&mut w, seed, &mut Vec::new(), if t { 5 } else { 4 }, true, false, 2, usize::MAX);
    }
    // a deep, asymmetric book that populates all ten published levels on both sides
    let mut deep: Vec<EnvCall> = Vec::new();
    for i in 0..10u32 {
        for k in 0..(i % 3 + 1) {
            deep.push(EnvCall::Place { bid: true, vol: i + 1 + k, price: Some((30 - i) * TICK) });
        }
        for k in 0..((i + 1) % 3 + 1) {
            deep.push(EnvCall::Place { bid: false, vol: 2 * i + 3 + k, price: Some((33 + i) * TICK) });
        }
    }
    deep.push(EnvCall::Step);
    let n_deep = deep.len();
    env_rec(&mut w, 3, &mut deep, if t { 4 } else { 3 }, false, false, 31, 3);
    let _ = n_deep;
    scripted_env_sets(&mut w);
    scripted_ladder_sets(&mut w);
    scripted_gap_sets(&mut w);
    w.f.flush().unwrap();
    out.set("states", json!(w.n));
    drop(w);
    if let Some(v) = run_driver(&mut out, "c19", &dir) {
        absorb_driver(&mut out, &v);
    }
    out.push("samples", json!({"kind": "StepEnv trace", "calls": [["place", true, 2, 100, 4], ["place", false, 3, 101, 6], ["step"]], "judged": "level_1_data_array / level_2_data_array / StepEnvNumpy.level_1_data / level_2_data element by element against the documented index table; get_market_data keys and series; data-frame column names"}));
    let _ = std::fs::remove_dir_all(&dir);
    out.assumptions = vec![
        "the documented index tables are transcribed once into /verif/py/driver.py".into(),
        "pandas is not installed offline: the two data-frame helpers run for real against a minimal stand-in module (DataFrame.from_records / __getitem__ / __setitem__ / map)".into(),
    ];
    out.finish()
}
