//! A deliberately boring reference matching engine (DESIGN §2.4).
//!
//! Plain vectors, a global insertion counter for queue order, linear scans. It encodes the
//! *statements* of C01 / C04 / C06 / C13, nothing of the implementation's data structures.

use crate::snap::*;

#[derive(Clone, Debug, PartialEq, Eq, Hash)]
pub struct MOrder {
    pub bid: bool,
    pub status: u8,
    /// `None` until placed: the properties do not define the value before that
    pub arr: Option<u64>,
    /// `None` until terminal
    pub end: Option<u64>,
    pub vol: u32,
    pub start_vol: u32,
    /// `None` for a market order
    pub price: Option<u32>,
    pub trader: u32,
    pub id: usize,
}

#[derive(Clone, Debug, PartialEq, Eq, Hash)]
pub struct Rest {
    pub price: u32,
    pub seq: u64,
    pub id: usize,
    /// clock value at which the entry was queued (only used to recognise tie histories)
    pub qtime: u64,
}

#[derive(Clone, Debug)]
pub struct RefModel {
    pub t: u64,
    pub tick: u32,
    pub trading: bool,
    pub ever_disabled: bool,
    pub orders: Vec<MOrder>,
    pub trades: Vec<TradeRec>,
    pub bids: Vec<Rest>,
    pub asks: Vec<Rest>,
    pub seq: u64,
    pub trade_vol: u64,
}

impl RefModel {
    pub fn new(t: u64, tick: u32, trading: bool) -> Self {
        RefModel {
            t,
            tick,
            trading,
            ever_disabled: !trading,
            orders: vec![],
            trades: vec![],
            bids: vec![],
            asks: vec![],
            seq: 0,
            trade_vol: 0,
        }
    }

    pub fn create(&mut self, bid: bool, vol: u32, trader: u32, price: Option<u32>) -> Result<usize, ()> {
        if let Some(p) = price {
            if p % self.tick != 0 {
                return Err(());
            }
        }
        let id = self.orders.len();
        self.orders.push(MOrder {
            bid,
            status: NEW,
            arr: None,
            end: None,
            vol,
            start_vol: vol,
            price,
            trader,
            id,
        });
        Ok(id)
    }

    fn book(&mut self, bid: bool) -> &mut Vec<Rest> {
        if bid {
            &mut self.bids
        } else {
            &mut self.asks
        }
    }

    /// index of the highest-priority resting entry opposite to an incoming order of side `bid`
    fn best_opposite(&self, incoming_bid: bool) -> Option<usize> {
        let v = if incoming_bid { &self.asks } else { &self.bids };
        let mut best: Option<usize> = None;
        for (i, r) in v.iter().enumerate() {
            best = match best {
                None => Some(i),
                Some(j) => {
                    let b = &v[j];
                    let better_price = if incoming_bid {
                        r.price < b.price
                    } else {
                        r.price > b.price
                    };
                    if better_price || (r.price == b.price && r.seq < b.seq) {
                        Some(i)
                    } else {
                        Some(j)
                    }
                }
            };
        }
        best
    }

    /// match order `id` (already holding its new price/vol) against the opposite side
    fn run_match(&mut self, id: usize) {
        loop {
            let (bid, vol, limit) = {
                let o = &self.orders[id];
                (o.bid, o.vol, o.price)
            };
            if vol == 0 {
                break;
            }
            let Some(i) = self.best_opposite(bid) else { break };
            let r = if bid { self.asks[i].clone() } else { self.bids[i].clone() };
            let admits = match limit {
                None => true,
                Some(l) => {
                    if bid {
                        r.price <= l
                    } else {
                        r.price >= l
                    }
                }
            };
            if !admits {
                break;
            }
            let pvol = self.orders[r.id].vol;
            let f = vol.min(pvol);
            self.orders[id].vol -= f;
            self.orders[r.id].vol -= f;
            self.trade_vol += f as u64;
            self.trades.push(TradeRec {
                t: self.t,
                bid: !bid,
                price: r.price,
                vol: f,
                active: id,
                passive: r.id,
            });
            if self.orders[r.id].vol == 0 {
                self.orders[r.id].status = FILLED;
                self.orders[r.id].end = Some(self.t);
                let opp = self.book(!bid);
                opp.remove(i);
            }
            if self.orders[id].vol == 0 {
                self.orders[id].status = FILLED;
                self.orders[id].end = Some(self.t);
            }
        }
    }

    fn enqueue(&mut self, id: usize) {
        let (bid, price) = {
            let o = &self.orders[id];
            (o.bid, o.price.expect("only limit orders rest"))
        };
        let seq = self.seq;
        self.seq += 1;
        let t = self.t;
        self.book(bid).push(Rest {
            price,
            seq,
            id,
            qtime: t,
        });
    }

    fn dequeue(&mut self, id: usize) {
        let bid = self.orders[id].bid;
        let b = self.book(bid);
        if let Some(i) = b.iter().position(|r| r.id == id) {
            b.remove(i);
        }
    }

    pub fn place(&mut self, id: usize) {
        if self.orders[id].status != NEW {
            return;
        }
        self.orders[id].arr = Some(self.t);
        let is_market = self.orders[id].price.is_none();
        if is_market {
            if !self.trading {
                self.orders[id].status = REJECTED;
                self.orders[id].end = Some(self.t);
                return;
            }
            self.orders[id].status = ACTIVE;
            self.run_match(id);
            if self.orders[id].status != FILLED {
                self.orders[id].status = CANCELLED;
                self.orders[id].end = Some(self.t);
            }
        } else {
            self.orders[id].status = ACTIVE;
            if self.trading {
                self.run_match(id);
            }
            if self.orders[id].status != FILLED {
                self.enqueue(id);
            }
        }
    }

    pub fn cancel(&mut self, id: usize) {
        if self.orders[id].status != ACTIVE {
            return;
        }
        self.orders[id].status = CANCELLED;
        self.orders[id].end = Some(self.t);
        self.dequeue(id);
    }

    pub fn modify(&mut self, id: usize, price: Option<u32>, vol: Option<u32>) {
        if self.orders[id].status != ACTIVE {
            return;
        }
        let cur_vol = self.orders[id].vol;
        match (price, vol) {
            (None, None) => {}
            (None, Some(v)) if v < cur_vol => {
                self.orders[id].vol = v;
            }
            (p, v) => {
                let np = p.or(self.orders[id].price);
                let nv = v.unwrap_or(cur_vol);
                self.dequeue(id);
                self.orders[id].price = np;
                self.orders[id].vol = nv;
                if self.trading {
                    self.run_match(id);
                }
                if self.orders[id].status != FILLED {
                    self.enqueue(id);
                }
            }
        }
    }

    pub fn set_time(&mut self, t: u64) {
        self.t = t;
    }
    pub fn enable(&mut self) {
        self.trading = true;
    }
    pub fn disable(&mut self) {
        self.trading = false;
        self.ever_disabled = true;
    }
    pub fn reset_trade_vol(&mut self) {
        self.trade_vol = 0;
    }

    // ---- views -------------------------------------------------------------------------

    /// resting entries of one side in priority order
    pub fn queue(&self, bid: bool) -> Vec<Rest> {
        let mut v = if bid { self.bids.clone() } else { self.asks.clone() };
        if bid {
            v.sort_by(|a, b| b.price.cmp(&a.price).then(a.seq.cmp(&b.seq)));
        } else {
            v.sort_by(|a, b| a.price.cmp(&b.price).then(a.seq.cmp(&b.seq)));
        }
        v
    }

    pub fn side_vol(&self, bid: bool) -> u64 {
        let v = if bid { &self.bids } else { &self.asks };
        v.iter().map(|r| self.orders[r.id].vol as u64).sum()
    }

    pub fn touch(&self, bid: bool) -> u32 {
        let v = if bid { &self.bids } else { &self.asks };
        if bid {
            v.iter().map(|r| r.price).max().unwrap_or(0)
        } else {
            v.iter().map(|r| r.price).min().unwrap_or(MAXP)
        }
    }

    pub fn level(&self, bid: bool, price: u64) -> (u32, u32) {
        let v = if bid { &self.bids } else { &self.asks };
        let mut vol = 0u64;
        let mut n = 0u32;
        for r in v.iter() {
            if r.price as u64 == price {
                vol += self.orders[r.id].vol as u64;
                n += 1;
            }
        }
        (vol.min(u32::MAX as u64) as u32, n)
    }

    pub fn levels(&self, bid: bool, n: usize) -> Vec<(u32, u32)> {
        let v = if bid { &self.bids } else { &self.asks };
        if v.is_empty() {
            return vec![(0, 0); n];
        }
        let t = self.touch(bid) as i64;
        (0..n)
            .map(|i| {
                let p = if bid {
                    t - (i as i64) * self.tick as i64
                } else {
                    t + (i as i64) * self.tick as i64
                };
                if p < 0 || p > MAXP as i64 {
                    (0, 0)
                } else {
                    self.level(bid, p as u64)
                }
            })
            .collect()
    }

    /// Two resting orders on one side at one price queued at the same clock value?
    pub fn has_tie(&self) -> bool {
        for v in [&self.bids, &self.asks] {
            for (i, a) in v.iter().enumerate() {
                for b in v.iter().skip(i + 1) {
                    if a.price == b.price && a.qtime == b.qtime {
                        return true;
                    }
                }
            }
        }
        false
    }

    /// Abstract live-book key: trading flag, per side priority-ordered (price, remaining vol)
    pub fn live_key(&self) -> (bool, Vec<(u32, u32)>, Vec<(u32, u32)>) {
        let f = |bid: bool| {
            self.queue(bid)
                .iter()
                .map(|r| (r.price, self.orders[r.id].vol))
                .collect::<Vec<_>>()
        };
        (self.trading, f(true), f(false))
    }

    /// Compare with a snapshot of the implementation; only what the properties define.
    pub fn compare(&self, s: &Snap, levels: usize) -> Result<(), (String, String)> {
        let bad = |clause: &str, detail: String| Err((clause.to_string(), detail));
        if s.time != self.t {
            return bad("time", format!("impl {} model {}", s.time, self.t));
        }
        if s.orders.len() != self.orders.len() {
            return bad(
                "order-count",
                format!("impl {} model {}", s.orders.len(), self.orders.len()),
            );
        }
        for (o, m) in s.orders.iter().zip(self.orders.iter()) {
            let mut ok = o.bid == m.bid
                && o.status == m.status
                && o.vol == m.vol
                && o.start_vol == m.start_vol
                && o.trader == m.trader
                && o.id == m.id;
            if let Some(p) = m.price {
                ok &= o.price == p;
            }
            if let Some(a) = m.arr {
                ok &= o.arr == a;
            }
            if let Some(e) = m.end {
                ok &= o.end == e;
            }
            if !ok {
                let clause = if o.status != m.status {
                    "order-status"
                } else if o.vol != m.vol {
                    "order-vol"
                } else if m.price.map_or(false, |p| p != o.price) {
                    "order-price"
                } else if m.arr.map_or(false, |a| a != o.arr) {
                    "order-arr-time"
                } else if m.end.map_or(false, |e| e != o.end) {
                    "order-end-time"
                } else {
                    "order-fixed-fields"
                };
                return bad(clause, format!("impl {:?} model {:?}", o, m));
            }
        }
        if s.trades.len() != self.trades.len() {
            return bad(
                "trade-count",
                format!(
                    "impl {} model {}; impl {:?} model {:?}",
                    s.trades.len(),
                    self.trades.len(),
                    s.trades.last(),
                    self.trades.last()
                ),
            );
        }
        for (a, b) in s.trades.iter().zip(self.trades.iter()) {
            if a != b {
                let clause = if a.passive != b.passive {
                    "trade-passive-order"
                } else if a.price != b.price {
                    "trade-price"
                } else if a.vol != b.vol {
                    "trade-vol"
                } else {
                    "trade-fields"
                };
                return bad(clause, format!("impl {:?} model {:?}", a, b));
            }
        }
        let v = &s.views;
        let (tb, ta) = (self.touch(true), self.touch(false));
        if v.bid_ask != (tb, ta) {
            return bad("touch", format!("impl {:?} model {:?}", v.bid_ask, (tb, ta)));
        }
        if v.bid_vol as u64 != self.side_vol(true) || v.ask_vol as u64 != self.side_vol(false) {
            return bad(
                "side-volume",
                format!(
                    "impl ({},{}) model ({},{})",
                    v.bid_vol,
                    v.ask_vol,
                    self.side_vol(true),
                    self.side_vol(false)
                ),
            );
        }
        let bl = self.levels(true, levels);
        let al = self.levels(false, levels);
        if v.bid_levels != bl || v.ask_levels != al {
            return bad(
                "levels",
                format!(
                    "impl bid {:?} ask {:?} model bid {:?} ask {:?}",
                    v.bid_levels, v.ask_levels, bl, al
                ),
            );
        }
        let b0 = self.levels(true, 1)[0];
        let a0 = self.levels(false, 1)[0];
        if v.bid_best_vo != b0 || v.ask_best_vo != a0 {
            return bad(
                "touch-volume",
                format!(
                    "impl {:?}/{:?} model {:?}/{:?}",
                    v.bid_best_vo, v.ask_best_vo, b0, a0
                ),
            );
        }
        if v.trade_vol as u64 != self.trade_vol {
            return bad(
                "trade-vol-counter",
                format!("impl {} model {}", v.trade_vol, self.trade_vol),
            );
        }
        Ok(())
    }
}
