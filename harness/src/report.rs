//! Evidence files, replay artefacts, known findings and the verdict protocol (DESIGN §2.8).

use crate::ops::*;
use crate::seqx::{RunCfg, RunStats, Witness};
use serde_json::{json, Value};
use std::collections::BTreeMap;
use std::time::Instant;

pub const VERIF: &str = "/verif";

/// directory for replay artefacts (overridable so that runs against seeded changes do not
/// litter the committed tree)
pub fn replay_dir() -> String {
    std::env::var("VERIF_REPLAY_DIR").unwrap_or_else(|_| format!("{}/replays", VERIF))
}
pub fn evidence_dir() -> String {
    std::env::var("VERIF_EVIDENCE_DIR").unwrap_or_else(|_| format!("{}/evidence", VERIF))
}

pub fn seed() -> i64 {
    std::env::var("VERIF_SEED")
        .ok()
        .and_then(|s| s.trim().parse::<i64>().ok())
        .unwrap_or(0)
}

// ---- op (de)serialisation for replay files ------------------------------------------------

pub fn op_to_json(op: &Op) -> Value {
    match op {
        Op::Limit { bid, price, vol } => json!({"k":"limit","bid":bid,"price":price,"vol":vol}),
        Op::Market { bid, vol } => json!({"k":"market","bid":bid,"vol":vol}),
        Op::Create { bid, price, vol } => json!({"k":"create","bid":bid,"price":price,"vol":vol}),
        Op::Place { id, ev } => json!({"k":"place","id":id,"ev":ev}),
        Op::Cancel { id, ev } => json!({"k":"cancel","id":id,"ev":ev}),
        Op::Modify { id, price, vol, ev } => {
            json!({"k":"modify","id":id,"price":price,"vol":vol,"ev":ev})
        }
        Op::SetTime { dt } => json!({"k":"set_time","dt":dt}),
        Op::Enable => json!({"k":"enable"}),
        Op::Disable => json!({"k":"disable"}),
        Op::ResetTv => json!({"k":"reset_tv"}),
        Op::Reload { mode } => json!({"k":"reload","mode":mode}),
        Op::BadCreate { bid, price, vol, place } => {
            json!({"k":"bad_create","bid":bid,"price":price,"vol":vol,"place":place})
        }
        Op::Observe => json!({"k":"observe"}),
    }
}

pub fn op_from_json(v: &Value) -> Option<Op> {
    let b = |k: &str| v.get(k).and_then(|x| x.as_bool());
    let u = |k: &str| v.get(k).and_then(|x| x.as_u64());
    let o = |k: &str| v.get(k).and_then(|x| x.as_u64()).map(|x| x as u32);
    Some(match v.get("k")?.as_str()? {
        "limit" => Op::Limit { bid: b("bid")?, price: u("price")? as u32, vol: u("vol")? as u32 },
        "market" => Op::Market { bid: b("bid")?, vol: u("vol")? as u32 },
        "create" => Op::Create { bid: b("bid")?, price: o("price"), vol: u("vol")? as u32 },
        "place" => Op::Place { id: u("id")? as usize, ev: b("ev")? },
        "cancel" => Op::Cancel { id: u("id")? as usize, ev: b("ev")? },
        "modify" => Op::Modify { id: u("id")? as usize, price: o("price"), vol: o("vol"), ev: b("ev")? },
        "set_time" => Op::SetTime { dt: u("dt")? },
        "enable" => Op::Enable,
        "disable" => Op::Disable,
        "reset_tv" => Op::ResetTv,
        "reload" => Op::Reload { mode: u("mode")? as u8 },
        "observe" => Op::Observe,
        "bad_create" => Op::BadCreate {
            bid: b("bid")?,
            price: u("price")? as u32,
            vol: u("vol")? as u32,
            place: b("place")?,
        },
        _ => return None,
    })
}

pub fn steps_to_json(steps: &[Step]) -> Value {
    Value::Array(
        steps
            .iter()
            .map(|s| json!({"dt": s.dt, "op": op_to_json(&s.op)}))
            .collect(),
    )
}

pub fn steps_from_json(v: &Value) -> Option<Vec<Step>> {
    v.as_array()?
        .iter()
        .map(|s| {
            Some(Step {
                dt: s.get("dt")?.as_u64()?,
                op: op_from_json(s.get("op")?)?,
            })
        })
        .collect()
}

pub fn steps_pretty(steps: &[Step]) -> Vec<String> {
    steps
        .iter()
        .map(|s| format!("+{} {:?}", s.dt, s.op))
        .collect()
}

// ---- known findings -------------------------------------------------------------------------

pub struct Known {
    /// (property, sig) -> description
    pub findings: BTreeMap<(String, String), String>,
}

pub fn load_known() -> Known {
    let mut findings = BTreeMap::new();
    if let Ok(txt) = std::fs::read_to_string(format!("{}/known_findings.txt", VERIF)) {
        for line in txt.lines() {
            let line = line.trim();
            if let Some(rest) = line.strip_prefix("finding:") {
                let mut prop = None;
                let mut sig = None;
                for tok in rest.split_whitespace() {
                    if let Some(p) = tok.strip_prefix("property=") {
                        prop = Some(p.to_string());
                    }
                    if let Some(s) = tok.strip_prefix("sig=") {
                        sig = Some(s.to_string());
                    }
                }
                if let (Some(p), Some(s)) = (prop, sig) {
                    findings.insert((p, s), rest.trim().to_string());
                }
            }
        }
    }
    Known { findings }
}

// ---- replay artefacts -----------------------------------------------------------------------

fn sanitize(s: &str) -> String {
    s.chars()
        .map(|c| if c.is_ascii_alphanumeric() { c } else { '-' })
        .collect::<String>()
        .trim_matches('-')
        .to_string()
}

pub fn rust_test_for(w: &Witness) -> String {
    let mut s = String::new();
    s += "// drop into /repo/crates/order_book/tests/ and run `cargo test --offline`\n";
    s += "use bourse_book::types::{Event, Side};\nuse bourse_book::OrderBook;\n";
    s += &format!("const LEVELS: usize = {};\nconst TRADER: u32 = 7;\n", w.levels);
    s += "#[test]\n#[allow(unused_mut, unused_variables, unused_imports)]\nfn replay() {\n";
    s += &format!(
        "    let mut book: OrderBook<LEVELS> = OrderBook::new({}, {}, {});\n",
        w.profile.start_time, w.profile.tick, w.profile.start_trading
    );
    for st in &w.steps {
        s += &format!("    {}\n", st.rust_stmt());
    }
    s += &format!("    // observed: {}\n", w.detail.replace('\n', " "));
    s += "    // now inspect book.get_orders(), book.get_trades(), book.bid_ask() ...\n}\n";
    s
}

pub fn write_replay(property: &str, monitors: &str, w: &Witness) -> String {
    let dir = replay_dir();
    let _ = std::fs::create_dir_all(&dir);
    let path = format!("{}/{}-{}.json", dir, property, sanitize(&w.sig));
    let v = json!({
        "property": property,
        "engine": "seqx",
        "signature": w.sig,
        "observed": w.detail,
        "occurrences_in_run": w.count,
        "monitors": monitors,
        "levels": w.levels,
        "profile": {
            "name": w.profile.name, "tick": w.profile.tick, "start_time": w.profile.start_time,
            "start_trading": w.profile.start_trading, "trader_base": w.profile.trader_base, "trader_mod": w.profile.trader_mod,
        },
        "steps": steps_to_json(&w.steps),
        "steps_readable": steps_pretty(&w.steps),
        "rust_test": rust_test_for(w),
    });
    let _ = std::fs::write(&path, serde_json::to_string_pretty(&v).unwrap());
    path
}

/// Called by the watchdog when one execution exceeds its time budget.
pub fn hang_exit(cfg: &RunCfg, hist: &[Step], levels: usize) -> ! {
    let prop = std::env::var("BVERIF_PROPERTY").unwrap_or_else(|_| "C00".into());
    let w = Witness {
        sig: "hang/execution-did-not-terminate".into(),
        detail: "one execution exceeded the per-execution time budget (a loop in the library no longer terminates on this valid history)".into(),
        profile: cfg.profile.clone(),
        levels,
        steps: hist.to_vec(),
        count: 1,
    };
    let path = write_replay(&prop, "all", &w);
    println!("VIOLATION property={} replay={}", prop, path);
    crate::ops::cleanup_scratch();
    std::process::exit(1);
}

// ---- evidence + verdict --------------------------------------------------------------------------

pub struct Outcome {
    pub property: String,
    pub tier: String,
    pub level: String,
    pub t0: Instant,
    pub coverage: serde_json::Map<String, Value>,
    pub assumptions: Vec<String>,
    /// sig -> (detail, replay writer)
    pub fails: BTreeMap<String, Witness>,
    /// violations produced by engines other than seqx: sig -> (detail, replay json)
    pub other_fails: BTreeMap<String, (String, Value)>,
    pub monitors: String,
    pub machinery_errors: Vec<String>,
}

impl Outcome {
    pub fn new(property: &str, tier: &str, level: &str) -> Self {
        std::env::set_var("BVERIF_PROPERTY", property);
        Outcome {
            property: property.into(),
            tier: tier.into(),
            level: level.into(),
            t0: Instant::now(),
            coverage: serde_json::Map::new(),
            assumptions: vec![],
            fails: BTreeMap::new(),
            other_fails: BTreeMap::new(),
            monitors: String::new(),
            machinery_errors: vec![],
        }
    }

    pub fn set(&mut self, k: &str, v: Value) {
        self.coverage.insert(k.to_string(), v);
    }

    pub fn add_u64(&mut self, k: &str, n: u64) {
        let cur = self.coverage.get(k).and_then(|v| v.as_u64()).unwrap_or(0);
        self.coverage.insert(k.to_string(), json!(cur + n));
    }

    pub fn push(&mut self, k: &str, v: Value) {
        let e = self.coverage.entry(k.to_string()).or_insert_with(|| json!([]));
        if let Some(a) = e.as_array_mut() {
            a.push(v);
        }
    }

    pub fn fail_other(&mut self, sig: &str, detail: String, replay: Value) {
        self.other_fails
            .entry(sig.to_string())
            .or_insert((detail, replay));
    }

    /// Fold the statistics of one seqx run into the coverage record.
    pub fn absorb(&mut self, st: &RunStats) {
        self.add_u64("states", st.nodes);
        self.add_u64("transitions", st.transitions);
        self.add_u64("traces_validated_against_impl", st.leaves.max(if st.nodes > 0 { 1 } else { 0 }));
        self.add_u64("distinct_live_books", st.live_keys.len() as u64);
        let feats: serde_json::Map<String, Value> =
            st.features.iter().map(|(k, v)| (k.clone(), json!(v))).collect();
        self.push(
            "runs",
            json!({
                "label": st.label, "levels": st.levels, "depth": st.depth, "complete": st.complete,
                "nodes": st.nodes, "leaves": st.leaves, "distinct_live_books": st.live_keys.len(),
                "distinct_observable_digests_lower_bound": st.digests.len(), "digests_capped": st.digests_capped,
                "max_branching": st.max_branching, "wall_s": (st.wall_s * 100.0).round() / 100.0,
                "features": feats, "violating_signatures": st.fails.keys().collect::<Vec<_>>(),
            }),
        );
        for s in st.samples.iter().take(2) {
            let have = self.coverage.get("samples").and_then(|v| v.as_array()).map_or(0, |a| a.len());
            if have < 8 {
                self.push("samples", json!(steps_pretty(s)));
            }
        }
        if !st.complete {
            self.set("exhaustive", json!(false));
        }
        for (k, w) in &st.fails {
            match self.fails.get_mut(k) {
                None => {
                    self.fails.insert(k.clone(), w.clone());
                }
                Some(old) => {
                    let n = old.count + w.count;
                    if w.steps.len() < old.steps.len() {
                        *old = w.clone();
                    }
                    old.count = n;
                }
            }
        }
    }

    /// Write the evidence file, print the verdict lines, return the exit code.
    pub fn finish(mut self) -> i32 {
        let known = load_known();
        let mut unlisted = 0;
        let mut lines = Vec::new();
        let mut known_hit = Vec::new();
        let fails = std::mem::take(&mut self.fails);
        for (sig, w) in &fails {
            let key = (self.property.clone(), sig.clone());
            if let Some(desc) = known.findings.get(&key) {
                lines.push(format!("KNOWN-FINDING: property={} {}", self.property, desc));
                known_hit.push(sig.clone());
            } else {
                let path = write_replay(&self.property, &self.monitors, w);
                lines.push(format!("VIOLATION property={} replay={}", self.property, path));
                eprintln!("  [{}] {} (x{}): {}", self.property, sig, w.count, w.detail);
                for s in steps_pretty(&w.steps) {
                    eprintln!("      {}", s);
                }
                unlisted += 1;
            }
        }
        let other = std::mem::take(&mut self.other_fails);
        for (sig, (detail, replay)) in &other {
            let key = (self.property.clone(), sig.clone());
            if let Some(desc) = known.findings.get(&key) {
                lines.push(format!("KNOWN-FINDING: property={} {}", self.property, desc));
                known_hit.push(sig.clone());
            } else {
                let dir = replay_dir();
                let _ = std::fs::create_dir_all(&dir);
                let path = format!("{}/{}-{}.json", dir, self.property, sanitize(sig));
                let v = json!({"property": self.property, "signature": sig, "observed": detail, "replay": replay});
                let _ = std::fs::write(&path, serde_json::to_string_pretty(&v).unwrap());
                lines.push(format!("VIOLATION property={} replay={}", self.property, path));
                eprintln!("  [{}] {}: {}", self.property, sig, detail);
                unlisted += 1;
            }
        }
        let wall = self.t0.elapsed().as_secs_f64();
        if !self.coverage.contains_key("exhaustive") {
            self.coverage.insert("exhaustive".into(), json!(true));
        }
        self.coverage
            .insert("known_findings_hit".into(), json!(known_hit));
        if !self.machinery_errors.is_empty() {
            self.coverage
                .insert("machinery_errors".into(), json!(self.machinery_errors));
        }
        let ev = json!({
            "property_id": self.property,
            "tier": self.tier,
            "seed": seed(),
            "level": self.level,
            "coverage": Value::Object(self.coverage.clone()),
            "assumptions": self.assumptions,
            "wall_s": (wall * 100.0).round() / 100.0,
            "violations": unlisted + known_hit.len(),
        });
        let dir = evidence_dir();
        let _ = std::fs::create_dir_all(&dir);
        let path = format!("{}/{}.json", dir, self.property);
        if let Err(e) = std::fs::write(&path, serde_json::to_string_pretty(&ev).unwrap()) {
            eprintln!("cannot write evidence {}: {}", path, e);
            return 2;
        }
        for l in &lines {
            println!("{}", l);
        }
        crate::ops::cleanup_scratch();
        if !self.machinery_errors.is_empty() {
            for e in &self.machinery_errors {
                eprintln!("MACHINERY-ERROR: {}", e);
            }
            // a violation that was reported stays a violation: a vacuity guard that fails next to it is
            // usually a consequence of the same broken behaviour (a feature that can no longer be reached)
            return if unlisted > 0 { 1 } else { 2 };
        }
        let states = self.coverage.get("states").and_then(|v| v.as_u64()).unwrap_or(0);
        let trans = self.coverage.get("transitions").and_then(|v| v.as_u64()).unwrap_or(0);
        println!(
            "{} {}: states={} transitions={} violations={} known={} wall={:.1}s",
            self.property,
            self.tier,
            states,
            trans,
            unlisted,
            known_hit.len(),
            wall
        );
        if unlisted > 0 {
            1
        } else {
            0
        }
    }
}


// ---- replay of a recorded artefact -----------------------------------------------------------

fn monitors_from_debug(txt: &str) -> crate::seqx::Monitors {
    let on = |k: &str| txt == "all" || txt.contains(&format!("{}: true", k));
    crate::seqx::Monitors {
        reference: on("reference"),
        drain: on("drain"),
        views: on("views"),
        ledger: on("ledger"),
        life: on("life"),
        grid: on("grid"),
        notrade: on("notrade"),
        reload_equal: on("reload_equal"),
        reload_diff: on("reload_diff"),
    }
}

/// `bverif replay <file>`: exit 1 + VIOLATION line if the recorded violation reproduces on the
/// current tree, exit 0 if it does not, exit 2 if the artefact cannot be read.
/// E1 artefacts (operation lists) are re-executed step by step on a fresh real book under the
/// recorded monitors, without the explorer. Artefacts of the other engines name a scenario of
/// their property's enumeration: the quick enumeration of that property is re-run in a child
/// process (evidence and replays redirected to a scratch directory) and its report is searched
/// for the recorded signature.
pub fn replay_file(path: &str) -> i32 {
    let txt = match std::fs::read_to_string(path) {
        Ok(t) => t,
        Err(e) => {
            eprintln!("MACHINERY-ERROR: cannot read {}: {}", path, e);
            return 2;
        }
    };
    let v: Value = match serde_json::from_str(&txt) {
        Ok(v) => v,
        Err(e) => {
            eprintln!("MACHINERY-ERROR: {} is not JSON: {}", path, e);
            return 2;
        }
    };
    let prop = v.get("property").and_then(|x| x.as_str()).unwrap_or("C00").to_string();
    let sig = v.get("signature").and_then(|x| x.as_str()).unwrap_or("").to_string();
    let engine = v.get("engine").and_then(|x| x.as_str()).or_else(|| v.get("replay").and_then(|r| r.get("engine")).and_then(|x| x.as_str())).unwrap_or("");
    if engine == "seqx" {
        let pr = v.get("profile").cloned().unwrap_or(json!({}));
        let mut p = Profile::core(pr.get("name").and_then(|x| x.as_str()).unwrap_or("replay"), pr.get("tick").and_then(|x| x.as_u64()).unwrap_or(1) as u32, 10);
        p.start_time = pr.get("start_time").and_then(|x| x.as_u64()).unwrap_or(0);
        p.start_trading = pr.get("start_trading").and_then(|x| x.as_bool()).unwrap_or(true);
        p.trader_base = pr.get("trader_base").and_then(|x| x.as_u64()).unwrap_or(100) as u32;
        p.trader_mod = pr.get("trader_mod").and_then(|x| x.as_u64()).unwrap_or(0) as u32;
        let steps = match v.get("steps").and_then(steps_from_json) {
            Some(s) => s,
            None => {
                eprintln!("MACHINERY-ERROR: {} holds no readable operation list", path);
                return 2;
            }
        };
        let levels = v.get("levels").and_then(|x| x.as_u64()).unwrap_or(3) as usize;
        let monitors = monitors_from_debug(v.get("monitors").and_then(|x| x.as_str()).unwrap_or("all"));
        let cfg = RunCfg { label: "replay".into(), profile: p, depth: 0, monitors, base: steps.clone(), deadline: None };
        let fails = crate::bookprops::replay_levels(levels, &cfg);
        println!("replay of {} ({} operations, LEVELS={}, recorded signature {}):", path, steps.len(), levels, sig);
        for l in steps_pretty(&steps) {
            println!("    {}", l);
        }
        if fails.is_empty() {
            println!("replay: every step satisfies the recorded monitors on the current tree (violation does not reproduce)");
            return 0;
        }
        for (i, f) in &fails {
            println!("  [{}] {} at operation {}: {}", prop, f.sig(), i, f.detail);
        }
        println!("VIOLATION property={} replay={}", prop, path);
        return 1;
    }
    // other engines: re-run the property's quick enumeration and look for the signature
    let exe = match std::env::current_exe() {
        Ok(e) => e,
        Err(e) => {
            eprintln!("MACHINERY-ERROR: {}", e);
            return 2;
        }
    };
    let scratch = std::env::temp_dir().join(format!("bverif-replay-{}", std::process::id()));
    let _ = std::fs::create_dir_all(&scratch);
    let out = std::process::Command::new(exe)
        .arg(&prop)
        .arg("quick")
        .env("VERIF_EVIDENCE_DIR", scratch.join("ev"))
        .env("VERIF_REPLAY_DIR", scratch.join("rp"))
        .output();
    let _ = std::fs::create_dir_all(scratch.join("ev"));
    let res = match out {
        Ok(o) => o,
        Err(e) => {
            eprintln!("MACHINERY-ERROR: cannot re-run {}: {}", prop, e);
            return 2;
        }
    };
    let text = format!("{}{}", String::from_utf8_lossy(&res.stdout), String::from_utf8_lossy(&res.stderr));
    let _ = std::fs::remove_dir_all(&scratch);
    println!("replay of {} (engine {}): re-ran the quick enumeration of {} and searched its report for signature {}", path, engine, prop, sig);
    let hit = text.lines().any(|l| l.contains(&format!("[{}] {}", prop, sig)));
    if hit {
        for l in text.lines().filter(|l| l.contains(&sig)).take(3) {
            println!("{}", l);
        }
        println!("VIOLATION property={} replay={}", prop, path);
        1
    } else if res.status.code() == Some(2) {
        eprintln!("MACHINERY-ERROR: the re-run ended with a machinery error");
        2
    } else {
        println!("replay: the recorded signature does not occur on the current tree");
        0
    }
}
