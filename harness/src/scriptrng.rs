//! `ScriptRng`: the controlled scheduler (DESIGN §2.6). An `RngCore` whose answers are read
//! from a script; afterwards a fixed SplitMix64 stream (so rejection loops terminate).

use rand::RngCore;

/// One scripted answer.
#[derive(Clone, Copy, Debug, PartialEq, Eq, Hash)]
pub enum Ans {
    /// "the smallest word whose scaled index is k out of r": ceil(k * 2^w / r)
    Frac(u64, u64),
    /// a raw word (truncated to 32 bits for `next_u32`)
    Raw(u64),
}

#[derive(Clone, Debug)]
pub struct ScriptRng {
    pub script: Vec<Ans>,
    pub pos: usize,
    state: u64,
    pub draws32: u64,
    pub draws64: u64,
    pub budget: u64,
    pub exhausted: bool,
}

fn splitmix(state: &mut u64) -> u64 {
    *state = state.wrapping_add(0x9E3779B97F4A7C15);
    let mut z = *state;
    z = (z ^ (z >> 30)).wrapping_mul(0xBF58476D1CE4E5B9);
    z = (z ^ (z >> 27)).wrapping_mul(0x94D049BB133111EB);
    z ^ (z >> 31)
}

impl ScriptRng {
    pub fn new(script: Vec<Ans>, seed: u64) -> Self {
        ScriptRng {
            script,
            pos: 0,
            state: seed.wrapping_mul(0x2545F4914F6CDD1D) ^ 0x1234_5678_9ABC_DEF0,
            draws32: 0,
            draws64: 0,
            budget: 1_000_000,
            exhausted: false,
        }
    }

    pub fn draws(&self) -> u64 {
        self.draws32 + self.draws64
    }

    pub fn bits(&self) -> u64 {
        self.draws32 * 32 + self.draws64 * 64
    }

    fn frac(k: u64, r: u64, bits: u32) -> u64 {
        // ceil(k * 2^bits / r)
        let num = (k as u128) << bits;
        let q = (num + (r as u128 - 1)) / r as u128;
        q as u64
    }

    fn tick(&mut self) {
        self.budget = self.budget.saturating_sub(1);
        if self.budget == 0 {
            self.exhausted = true;
            // break any loop in the consumer by panicking: caught by the harness as a hang
            panic!("ScriptRng draw budget exhausted (a loop fed by the generator does not terminate)");
        }
    }
}

impl RngCore for ScriptRng {
    fn next_u32(&mut self) -> u32 {
        self.tick();
        self.draws32 += 1;
        if self.pos < self.script.len() {
            let a = self.script[self.pos];
            self.pos += 1;
            match a {
                Ans::Frac(k, r) => Self::frac(k, r, 32) as u32,
                Ans::Raw(x) => x as u32,
            }
        } else {
            (splitmix(&mut self.state) >> 32) as u32
        }
    }
    fn next_u64(&mut self) -> u64 {
        self.tick();
        self.draws64 += 1;
        if self.pos < self.script.len() {
            let a = self.script[self.pos];
            self.pos += 1;
            match a {
                Ans::Frac(k, r) => Self::frac(k, r, 64),
                Ans::Raw(x) => x,
            }
        } else {
            splitmix(&mut self.state)
        }
    }
    fn fill_bytes(&mut self, dest: &mut [u8]) {
        for chunk in dest.chunks_mut(8) {
            let v = self.next_u64().to_le_bytes();
            chunk.copy_from_slice(&v[..chunk.len()]);
        }
    }
    fn try_fill_bytes(&mut self, dest: &mut [u8]) -> Result<(), rand::Error> {
        self.fill_bytes(dest);
        Ok(())
    }
}

/// All index scripts for a Fisher-Yates shuffle of `n` items drawing ranges n, n-1, .., 2.
pub fn all_index_scripts(n: usize) -> Vec<Vec<Ans>> {
    let mut out: Vec<Vec<Ans>> = vec![vec![]];
    if n < 2 {
        return out;
    }
    for r in (2..=n as u64).rev() {
        let mut next = Vec::with_capacity(out.len() * r as usize);
        for s in &out {
            for k in 0..r {
                let mut s2 = s.clone();
                s2.push(Ans::Frac(k, r));
                next.push(s2);
            }
        }
        out = next;
    }
    out
}

/// The permutation rand's own `shuffle` produces for `n` items under this script (reference
/// for "bourse's processing order is exactly the library shuffle of the submission order").
pub fn rand_shuffle_order(n: usize, script: &[Ans], seed: u64) -> (Vec<usize>, u64) {
    use rand::seq::SliceRandom;
    let mut v: Vec<usize> = (0..n).collect();
    let mut rng = ScriptRng::new(script.to_vec(), seed);
    v.shuffle(&mut rng);
    (v, rng.draws())
}
