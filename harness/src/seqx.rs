//! Engine E1: stateless exhaustive exploration of operation sequences on the real
//! `OrderBook` (DESIGN §2.2). Every node rebuilds a fresh real book by replaying its history;
//! the reference model and the harness's bookkeeping are cloned along the way.

use crate::monitors::*;
use crate::ops::*;
use crate::refmodel::RefModel;
use crate::snap::*;
use crate::util;
use bourse_book::OrderBook;
use std::collections::{BTreeMap, HashSet};
use std::sync::atomic::{AtomicBool, AtomicU64, Ordering};
use std::sync::Mutex;
use std::time::{Duration, Instant};

#[derive(Clone, Debug, Default)]
pub struct Monitors {
    pub reference: bool,
    pub drain: bool,
    pub views: bool,
    pub ledger: bool,
    pub life: bool,
    pub grid: bool,
    pub notrade: bool,
    /// after a Reload op the reloaded object's snapshot must equal the one before
    pub reload_equal: bool,
    /// model-free differential: the run h.reload.c must be indistinguishable (snapshot and
    /// drain sequence) from the run h.c on a book that was never reloaded
    pub reload_diff: bool,
}

#[derive(Clone, Debug)]
pub struct Fail {
    pub monitor: &'static str,
    pub clause: String,
    pub detail: String,
}

impl Fail {
    pub fn sig(&self) -> String {
        format!("{}/{}", self.monitor, self.clause)
    }
}

#[derive(Clone, Debug)]
pub struct Witness {
    pub sig: String,
    pub detail: String,
    pub profile: Profile,
    pub levels: usize,
    pub steps: Vec<Step>,
    pub count: u64,
}

#[derive(Clone)]
pub struct Node {
    pub hist: Vec<Step>,
    pub model: RefModel,
    pub track: Track,
    pub snap: Snap,
}

pub struct RunCfg {
    pub label: String,
    pub profile: Profile,
    pub depth: usize,
    pub monitors: Monitors,
    /// scripted base state the exploration starts from (applied and judged first)
    pub base: Vec<Step>,
    pub deadline: Option<Instant>,
}

#[derive(Default, Clone)]
pub struct RunStats {
    pub label: String,
    pub levels: usize,
    pub depth: usize,
    pub nodes: u64,
    pub transitions: u64,
    pub leaves: u64,
    pub live_keys: HashSet<u64>,
    pub digests: HashSet<u64>,
    pub digests_capped: bool,
    pub features: BTreeMap<String, u64>,
    pub fails: BTreeMap<String, Witness>,
    pub samples: Vec<Vec<Step>>,
    pub max_branching: usize,
    pub complete: bool,
    pub wall_s: f64,
}

impl RunStats {
    fn merge(&mut self, o: RunStats) {
        self.nodes += o.nodes;
        self.transitions += o.transitions;
        self.leaves += o.leaves;
        self.live_keys.extend(o.live_keys);
        if self.digests.len() < DIGEST_CAP {
            self.digests.extend(o.digests);
        }
        self.digests_capped |= o.digests_capped || self.digests.len() >= DIGEST_CAP;
        for (k, v) in o.features {
            *self.features.entry(k).or_insert(0) += v;
        }
        for (k, w) in o.fails {
            merge_fail(&mut self.fails, k, w);
        }
        if self.samples.len() < 6 {
            self.samples.extend(o.samples.into_iter().take(2));
        }
        self.max_branching = self.max_branching.max(o.max_branching);
    }
}

const DIGEST_CAP: usize = 3_000_000;

fn merge_fail(map: &mut BTreeMap<String, Witness>, k: String, w: Witness) {
    match map.get_mut(&k) {
        None => {
            map.insert(k, w);
        }
        Some(old) => {
            let n = old.count + w.count;
            if w.steps.len() < old.steps.len() {
                *old = w;
            }
            old.count = n;
        }
    }
}

struct Shared<'a> {
    cfg: &'a RunCfg,
    stop: AtomicBool,
    slots: Vec<Mutex<Option<(Instant, Vec<Step>)>>>,
    hang: Mutex<Option<Vec<Step>>>,
    progress: AtomicU64,
}

pub fn build_book<const L: usize>(p: &Profile, steps: &[Step]) -> OrderBook<L> {
    let mut b = OrderBook::<L>::new(p.start_time, p.tick, p.start_trading);
    for s in steps {
        apply_real(&mut b, s);
    }
    b
}

fn feat(st: &mut RunStats, k: &str) {
    *st.features.entry(k.to_string()).or_insert(0) += 1;
}

/// Judge one transition. Returns the failures found (empty = fine).
#[allow(clippy::too_many_arguments)]
pub fn judge<const L: usize>(
    cfg: &RunCfg,
    step: &Step,
    before: &Snap,
    after: &Snap,
    ret: &Ret,
    m_after: &RefModel,
    m_ret: &Ret,
    track_before: &Track,
    track_after: &Track,
) -> Vec<Fail> {
    let mon = &cfg.monitors;
    let mut f = Vec::new();
    let mut push = |monitor: &'static str, v: Verdict| {
        if let Err((clause, detail)) = v {
            f.push(Fail { monitor, clause, detail });
        }
    };
    if let Ret::ReloadFailed(e) = ret {
        push("reload", Err(("reload-failed".into(), e.clone())));
        return f;
    }
    if let Op::Observe = step.op {
        // reading is not an operation of the book: nothing observable may differ afterwards
        let mut b = before.clone();
        b.time = after.time;
        if b != *after {
            push("observe", Err(("reading-changed-the-book".into(), b.describe_diff(after))));
        }
    }
    if mon.reference {
        if ret != m_ret && !matches!(step.op, Op::Reload { .. }) {
            push(
                "ref",
                Err((
                    "return-value".into(),
                    format!("{:?} returned {:?}, reference {:?}", step.op, ret, m_ret),
                )),
            );
        }
        push("ref", m_after.compare(after, L));
    }
    if mon.views {
        push("views", m_views(after, cfg.profile.tick, track_after.ever_disabled));
    }
    if mon.ledger {
        push("ledger", m_ledger(before, after, track_after));
    }
    if mon.life {
        push("life", m_life(before, after, step, ret, track_after, track_before.trading));
    }
    if mon.grid {
        push("grid", m_grid(before, after, step, ret, track_after, cfg.profile.tick));
    }
    if mon.notrade {
        push("notrade", m_notrade(before, after, step, track_before));
    }
    if mon.reload_equal {
        if let Op::Reload { .. } = step.op {
            let mut a = after.clone();
            a.time = before.time + step.dt;
            let mut b = before.clone();
            b.time = a.time;
            if a != b {
                push(
                    "reload",
                    Err(("reloaded-differs".into(), b.describe_diff(&a))),
                );
            }
        }
    }
    f
}

fn note_features(st: &mut RunStats, step: &Step, before: &Snap, after: &Snap, m: &RefModel) {
    feat(st, &format!("op:{}", op_kind(&step.op)));
    if step.dt == 0 {
        feat(st, "dt0");
    }
    let nt = after.trades.len().saturating_sub(before.trades.len());
    if nt > 0 {
        feat(st, "op-with-trades");
        if nt > 1 {
            feat(st, "multi-fill-sweep");
        }
        if let Op::Modify { .. } = step.op {
            feat(st, "modify-that-trades");
        }
        for t in &after.trades[before.trades.len()..] {
            if t.passive < after.orders.len() && after.orders[t.passive].status == ACTIVE {
                feat(st, "partial-fill-of-resting");
            }
        }
    }
    match &step.op {
        Op::Cancel { id, .. } => {
            let o = &before.orders[*id];
            if o.status == ACTIVE && o.vol < o.start_vol {
                feat(st, "cancel-of-partially-filled");
            }
            if o.status != ACTIVE {
                feat(st, "redundant-cancel");
            }
        }
        Op::Modify { id, price, vol, .. } => {
            let o = &before.orders[*id];
            if o.status == ACTIVE {
                if price.is_none() && vol.map_or(false, |v| v < o.vol) {
                    feat(st, "modify-in-place-reduction");
                } else if price.is_some() || vol.is_some() {
                    feat(st, "modify-requeue");
                }
            } else {
                feat(st, "redundant-modify");
            }
        }
        Op::Place { id, .. } => {
            if before.orders[*id].status != NEW {
                feat(st, "redundant-place");
            }
        }
        Op::Market { .. } => {
            if after.orders.last().map_or(false, |o| o.status == REJECTED) {
                feat(st, "market-rejected");
            }
        }
        _ => {}
    }
    if m.has_tie() {
        feat(st, "state-with-tie");
    }
    let (tb, ta) = (m.touch(true), m.touch(false));
    if !m.bids.is_empty() && !m.asks.is_empty() && tb >= ta {
        feat(st, "state-crossed");
    }
    for bid in [true, false] {
        let q = m.queue(bid);
        if q.len() >= 3 && q[0].price == q[2].price {
            feat(st, "three-queued-at-one-price");
        }
    }
}

/// Visit all children of `node`; recurse `depth_left-1` below each.
fn expand<const L: usize>(
    sh: &Shared,
    slot: usize,
    st: &mut RunStats,
    node: &Node,
    depth_left: usize,
    spill_at: Option<usize>,
    spill: &mut Vec<Node>,
) {
    if depth_left == 0 {
        st.leaves += 1;
        if st.samples.len() < 2 && st.leaves % 50_021 == 1 {
            st.samples.push(node.hist.clone());
        }
        return;
    }
    if sh.stop.load(Ordering::Relaxed) {
        return;
    }
    let cfg = sh.cfg;
    let steps = cfg.profile.steps(&node.model);
    st.max_branching = st.max_branching.max(steps.len());
    let base_len = cfg.base.len();
    for step in steps {
        let mut hist = node.hist.clone();
        hist.push(step.clone());
        *sh.slots[slot].lock().unwrap() = Some((Instant::now(), hist.clone()));
        // --- the real code ---
        let real = util::subject((|| {
            let mut book = build_book::<L>(&cfg.profile, &hist[..hist.len() - 1]);
            let ret = apply_real(&mut book, &step);
            let after = Snap::take(&book);
            (book, ret, after)
        }));
        // --- the model and the harness's own bookkeeping ---
        let mut m2 = node.model.clone();
        let m_ret = apply_model(&mut m2, &step);
        st.nodes += 1;
        st.transitions += 1;
        let (mut book, ret, after) = match real {
            Ok(x) => x,
            Err(msg) => {
                let f = Fail {
                    monitor: "panic",
                    clause: format!("{}/{}", op_kind(&step.op), util::panic_sig(&msg)),
                    detail: format!("the library panicked on a valid history: {}", msg),
                };
                record_fail(cfg, st, &f, &hist, L);
                continue;
            }
        };
        let mut t2 = node.track.clone();
        t2.note(&step, &node.snap, &after);
        let mut fails = judge::<L>(cfg, &step, &node.snap, &after, &ret, &m2, &m_ret, &node.track, &t2);
        if cfg.monitors.drain && fails.is_empty() {
            let mut md = m2.clone();
            let r = util::subject((|| drain_probe(&mut book, &mut md)));
            match r {
                Ok(Ok(())) => {}
                Ok(Err((clause, detail))) => fails.push(Fail { monitor: "drain", clause, detail }),
                Err(msg) => {
                    fails.push(Fail {
                        monitor: "panic",
                        clause: format!("drain/{}", util::panic_sig(&msg)),
                        detail: format!("the library panicked while the book was swept: {}", msg),
                    })
                }
            }
        }
        if cfg.monitors.reload_diff
            && fails.is_empty()
            && hist[base_len..].iter().any(|s| matches!(s.op, Op::Reload { .. }))
        {
            if let Some(f) = reload_diff_check::<L>(&cfg.profile, &hist, &after) {
                fails.push(f);
            }
        }
        drop(book);
        note_features(st, &step, &node.snap, &after, &m2);
        st.live_keys.insert(util::fnv_of(&m2.live_key()));
        if st.digests.len() < DIGEST_CAP / 8 {
            st.digests.insert(after.digest());
        } else {
            st.digests_capped = true;
        }
        if !fails.is_empty() {
            for f in &fails {
                record_fail(cfg, st, f, &hist, L);
            }
            // model and implementation have diverged: nothing below this node is meaningful
            continue;
        }
        let child = Node { hist, model: m2, track: t2, snap: after };
        if spill_at == Some(child.hist.len() - base_len) && depth_left > 1 {
            spill.push(child);
            // its subtree is explored by a worker; count nothing more here
        } else {
            expand::<L>(sh, slot, st, &child, depth_left - 1, spill_at, spill);
        }
    }
    sh.progress.fetch_add(1, Ordering::Relaxed);
}

/// Model-free differential for snapshot reloads: the run h.reload.c must be indistinguishable
/// (snapshot and sweep) from the same run on a book that was never reloaded.
pub fn reload_diff_check<const L: usize>(profile: &Profile, hist: &[Step], after: &Snap) -> Option<Fail> {
    let plain: Vec<Step> = hist
        .iter()
        .map(|s| match s.op {
            // keep the clock advance of the removed reload step
            Op::Reload { .. } => Step { dt: 0, op: Op::SetTime { dt: s.dt } },
            _ => s.clone(),
        })
        .collect();
    let r = util::subject(|| {
        let mut b2 = build_book::<L>(profile, &plain);
        let s2 = Snap::take(&b2);
        if s2 != *after {
            return Err(format!("never-reloaded run vs reloaded run: {}", s2.describe_diff(after)));
        }
        // sweep both real books and compare what executes
        let mut b1 = build_book::<L>(profile, hist);
        let sweep = |b: &mut OrderBook<L>| {
            b.enable_trading();
            let n0 = b.get_trades().len();
            for bid in [true, false] {
                b.set_time(b.get_time().saturating_add(1));
                b.reset_trade_vol();
                let v = if bid { b.ask_vol() } else { b.bid_vol() }.saturating_add(1);
                let _ = b.create_and_place_order(side_of(bid), v, 9, None);
            }
            (
                b.get_trades()[n0..].iter().map(TradeRec::of).collect::<Vec<_>>(),
                Snap::take(b),
            )
        };
        let (t1, f1) = sweep(&mut b1);
        let (t2, f2) = sweep(&mut b2);
        if t1 != t2 {
            return Err(format!("sweeping executes {:?} after reload but {:?} without", t1, t2));
        }
        if f1 != f2 {
            return Err(format!("after sweeping: {}", f2.describe_diff(&f1)));
        }
        Ok(())
    });
    match r {
        Ok(Ok(())) => None,
        Ok(Err(d)) => Some(Fail { monitor: "reload", clause: "diverges-from-never-reloaded".into(), detail: d }),
        Err(msg) => Some(Fail {
            monitor: "panic",
            clause: format!("reload-diff/{}", util::panic_sig(&msg)),
            detail: msg,
        }),
    }
}

/// Replay one recorded history (a replay artefact) on a fresh real book, judging every step with
/// the given monitors exactly as the explorer does (incl. drain probe and reload differential).
pub fn replay_history<const L: usize>(cfg: &RunCfg) -> Vec<(usize, Fail)> {
    crate::ops::set_traders(cfg.profile.trader_base, cfg.profile.trader_mod);
    let p = &cfg.profile;
    let mut out = Vec::new();
    let mut model = RefModel::new(p.start_time, p.tick, p.start_trading);
    let mut track = Track::new(p.start_trading);
    let mut snap = Snap::take(&OrderBook::<L>::new(p.start_time, p.tick, p.start_trading));
    for i in 0..cfg.base.len() {
        let hist = &cfg.base[..=i];
        let step = &cfg.base[i];
        let real = util::subject(|| {
            let mut book = build_book::<L>(p, &hist[..i]);
            let ret = apply_real(&mut book, step);
            let after = Snap::take(&book);
            (book, ret, after)
        });
        let mut m2 = model.clone();
        let m_ret = apply_model(&mut m2, step);
        let (mut book, ret, after) = match real {
            Ok(x) => x,
            Err(msg) => {
                out.push((i, Fail {
                    monitor: "panic",
                    clause: format!("{}/{}", op_kind(&step.op), util::panic_sig(&msg)),
                    detail: format!("the library panicked on a valid history: {}", msg),
                }));
                break;
            }
        };
        let mut t2 = track.clone();
        t2.note(step, &snap, &after);
        let mut fails = judge::<L>(cfg, step, &snap, &after, &ret, &m2, &m_ret, &track, &t2);
        if cfg.monitors.drain && fails.is_empty() {
            let mut md = m2.clone();
            match util::subject(|| drain_probe(&mut book, &mut md)) {
                Ok(Ok(())) => {}
                Ok(Err((clause, detail))) => fails.push(Fail { monitor: "drain", clause, detail }),
                Err(msg) => fails.push(Fail {
                    monitor: "panic",
                    clause: format!("drain/{}", util::panic_sig(&msg)),
                    detail: format!("the library panicked while the book was swept: {}", msg),
                }),
            }
        }
        if cfg.monitors.reload_diff && fails.is_empty() && hist.iter().any(|s| matches!(s.op, Op::Reload { .. })) {
            if let Some(f) = reload_diff_check::<L>(p, hist, &after) {
                fails.push(f);
            }
        }
        if !fails.is_empty() {
            out.extend(fails.into_iter().map(|f| (i, f)));
            break;
        }
        model = m2;
        track = t2;
        snap = after;
    }
    crate::ops::set_traders(100, 0);
    out
}

fn record_fail(cfg: &RunCfg, st: &mut RunStats, f: &Fail, hist: &[Step], levels: usize) {
    let w = Witness {
        sig: f.sig(),
        detail: f.detail.clone(),
        profile: cfg.profile.clone(),
        levels,
        steps: hist.to_vec(),
        count: 1,
    };
    merge_fail(&mut st.fails, f.sig(), w);
}

/// Explore every history of length <= cfg.depth (after the base) with `L` published levels.
pub fn run<const L: usize>(cfg: &RunCfg) -> RunStats {
    let t0 = Instant::now();
    crate::ops::set_traders(cfg.profile.trader_base, cfg.profile.trader_mod);
    let threads = util::n_threads();
    let sh = Shared {
        cfg,
        stop: AtomicBool::new(false),
        slots: (0..threads + 1).map(|_| Mutex::new(None)).collect(),
        hang: Mutex::new(None),
        progress: AtomicU64::new(0),
    };
    let mut total = RunStats {
        label: cfg.label.clone(),
        levels: L,
        depth: cfg.depth,
        ..Default::default()
    };

    // root: apply (and judge) the scripted base state
    let p = &cfg.profile;
    let mut root = {
        let b = OrderBook::<L>::new(p.start_time, p.tick, p.start_trading);
        Node {
            hist: vec![],
            model: RefModel::new(p.start_time, p.tick, p.start_trading),
            track: Track::new(p.start_trading),
            snap: Snap::take(&b),
        }
    };
    // (applied incrementally on one book: scripted bases may hold thousands of operations)
    let mut base_book = OrderBook::<L>::new(p.start_time, p.tick, p.start_trading);
    for (i, step) in cfg.base.iter().enumerate() {
        let hist = cfg.base[..=i].to_vec();
        let real = util::subject(|| {
            let ret = apply_real(&mut base_book, step);
            let after = Snap::take(&base_book);
            (ret, after)
        });
        let mut m2 = root.model.clone();
        let m_ret = apply_model(&mut m2, step);
        let (ret, after) = match real {
            Ok(x) => x,
            Err(msg) => {
                let f = Fail {
                    monitor: "panic",
                    clause: format!("{}/{}", op_kind(&step.op), util::panic_sig(&msg)),
                    detail: format!("the library panicked on a valid history: {}", msg),
                };
                record_fail(cfg, &mut total, &f, &hist, L);
                total.complete = true;
                return total;
            }
        };
        let mut t2 = root.track.clone();
        t2.note(step, &root.snap, &after);
        let fails = judge::<L>(cfg, step, &root.snap, &after, &ret, &m2, &m_ret, &root.track, &t2);
        total.nodes += 1;
        total.transitions += 1;
        if !fails.is_empty() {
            for f in &fails {
                record_fail(cfg, &mut total, f, &hist, L);
            }
            total.complete = true;
            return total;
        }
        root = Node { hist, model: m2, track: t2, snap: after };
    }

    // top of the tree on this thread, spilling depth-2 nodes as jobs
    let split = if cfg.depth >= 4 { 2 } else if cfg.depth >= 2 { 1 } else { 0 };
    let mut jobs: Vec<Node> = Vec::new();
    {
        let mut st = RunStats::default();
        let spill_at = if split > 0 { Some(split) } else { None };
        expand::<L>(&sh, threads, &mut st, &root, cfg.depth, spill_at, &mut jobs);
        // this thread executes nothing from here on: clear its slot so the watchdog does not
        // mistake the idle coordinator for a hung execution
        *sh.slots[threads].lock().unwrap() = None;
        total.merge(st);
    }
    let jobs = Mutex::new(jobs);
    let done = AtomicBool::new(false);
    let results: Mutex<Vec<RunStats>> = Mutex::new(Vec::new());
    std::thread::scope(|s| {
        // watchdog: waiting made visible
        s.spawn(|| {
            let hang_s = util::env_u64("VERIF_HANG_S", 120);
            while !done.load(Ordering::Relaxed) {
                std::thread::sleep(Duration::from_millis(5));
                if let Some(dl) = cfg.deadline {
                    if Instant::now() > dl {
                        sh.stop.store(true, Ordering::Relaxed);
                    }
                }
                // memory: a matching loop that allocates without terminating shows up here first;
                // the execution that has been running longest is the witness
                let mem_exhausted = util::rss_bytes() > util::env_u64("VERIF_RSS_GB", 12) * (1 << 30) / 2;
                let mut oldest: Option<(Instant, Vec<Step>)> = None;
                for sl in &sh.slots {
                    let g = sl.lock().unwrap();
                    if let Some((t, h)) = &*g {
                        if t.elapsed() > Duration::from_secs(hang_s) {
                            *sh.hang.lock().unwrap() = Some(h.clone());
                        }
                        if oldest.as_ref().map_or(true, |o| *t < o.0) {
                            oldest = Some((*t, h.clone()));
                        }
                    }
                }
                if mem_exhausted {
                    if let Some((_, h)) = oldest {
                        *sh.hang.lock().unwrap() = Some(h);
                    }
                }
                if sh.hang.lock().unwrap().is_some() {
                    // a single execution exceeded its budget: report and leave (the stuck
                    // thread cannot be cancelled)
                    let h = sh.hang.lock().unwrap().clone().unwrap();
                    crate::report::hang_exit(cfg, &h, L);
                }
            }
        });
        let mut hs = Vec::new();
        for w in 0..threads {
            let sh = &sh;
            let jobs = &jobs;
            let results = &results;
            hs.push(s.spawn(move || {
                let mut st = RunStats::default();
                loop {
                    let job = jobs.lock().unwrap().pop();
                    let Some(job) = job else { break };
                    let dl = cfg.depth - (job.hist.len() - cfg.base.len());
                    let mut none = Vec::new();
                    expand::<L>(sh, w, &mut st, &job, dl, None, &mut none);
                    *sh.slots[w].lock().unwrap() = None;
                }
                results.lock().unwrap().push(st);
            }));
        }
        for h in hs {
            let _ = h.join();
        }
        done.store(true, Ordering::Relaxed);
    });
    for st in results.into_inner().unwrap() {
        total.merge(st);
    }
    total.complete = !sh.stop.load(Ordering::Relaxed);
    total.wall_s = t0.elapsed().as_secs_f64();
    crate::ops::set_traders(100, 0);
    total
}

/// Replay one history twice on the real code and require identical observations (the gate
/// that shows the harness owns every source of nondeterminism).
pub fn determinism_gate<const L: usize>(p: &Profile, steps: &[Step]) -> Result<(), String> {
    let a = Snap::take(&build_book::<L>(p, steps));
    let b = Snap::take(&build_book::<L>(p, steps));
    if a != b {
        return Err(format!("replaying the same history twice differs: {}", a.describe_diff(&b)));
    }
    Ok(())
}

/// Replay a history on a fresh real book while maintaining the harness's bookkeeping.
pub fn replay_tracked<const L: usize>(p: &Profile, steps: &[Step]) -> (OrderBook<L>, Track, Snap) {
    let mut b = OrderBook::<L>::new(p.start_time, p.tick, p.start_trading);
    let mut track = Track::new(p.start_trading);
    let mut snap = Snap::take(&b);
    for s in steps {
        apply_real(&mut b, s);
        let after = Snap::take(&b);
        track.note(s, &snap, &after);
        snap = after;
    }
    (b, track, snap)
}
