//! Observable snapshot of a real `OrderBook` taken through the public API only.

use bourse_book::types::{Order, Side, Status, Trade};
use bourse_book::OrderBook;

pub const MAXP: u32 = u32::MAX;

pub fn is_bid(s: Side) -> bool {
    matches!(s, Side::Bid)
}
pub fn side_of(bid: bool) -> Side {
    if bid {
        Side::Bid
    } else {
        Side::Ask
    }
}
pub fn st_code(s: Status) -> u8 {
    match s {
        Status::New => 0,
        Status::Active => 1,
        Status::Filled => 2,
        Status::Cancelled => 3,
        Status::Rejected => 4,
        // (a status this harness does not know: the library grew a variant; it is judged by
        // value - no order may ever show it - instead of failing the build)
        #[allow(unreachable_patterns)]
        _ => 5,
    }
}
pub const NEW: u8 = 0;
pub const ACTIVE: u8 = 1;
pub const FILLED: u8 = 2;
pub const CANCELLED: u8 = 3;
pub const REJECTED: u8 = 4;

pub fn st_name(c: u8) -> &'static str {
    ["New", "Active", "Filled", "Cancelled", "Rejected", "(unknown status)"][(c as usize).min(5)]
}

#[derive(Clone, PartialEq, Eq, Debug, Hash)]
pub struct OrderRec {
    pub bid: bool,
    pub status: u8,
    pub arr: u64,
    pub end: u64,
    pub vol: u32,
    pub start_vol: u32,
    pub price: u32,
    pub trader: u32,
    pub id: usize,
}

impl OrderRec {
    pub fn of(o: &Order) -> Self {
        OrderRec {
            bid: is_bid(o.side),
            status: st_code(o.status),
            arr: o.arr_time,
            end: o.end_time,
            vol: o.vol,
            start_vol: o.start_vol,
            price: o.price,
            trader: o.trader_id,
            id: o.order_id,
        }
    }
}

#[derive(Clone, PartialEq, Eq, Debug, Hash)]
pub struct TradeRec {
    pub t: u64,
    pub bid: bool,
    pub price: u32,
    pub vol: u32,
    pub active: usize,
    pub passive: usize,
}

impl TradeRec {
    pub fn of(t: &Trade) -> Self {
        TradeRec {
            t: t.t,
            bid: is_bid(t.side),
            price: t.price,
            vol: t.vol,
            active: t.active_order_id,
            passive: t.passive_order_id,
        }
    }
}

/// Every market-data view the book publishes.
#[derive(Clone, PartialEq, Debug)]
pub struct Views {
    pub bid_ask: (u32, u32),
    pub bid_vol: u32,
    pub ask_vol: u32,
    pub bid_best_vol: u32,
    pub ask_best_vol: u32,
    pub bid_best_vo: (u32, u32),
    pub ask_best_vo: (u32, u32),
    pub bid_levels: Vec<(u32, u32)>,
    pub ask_levels: Vec<(u32, u32)>,
    /// bid_price, ask_price, bid_vol, ask_vol, bid_touch_vol, ask_touch_vol, bid_touch_orders, ask_touch_orders
    pub l1: [u32; 8],
    /// bid_price, ask_price, bid_vol, ask_vol
    pub l2_head: [u32; 4],
    pub l2_bid_levels: Vec<(u32, u32)>,
    pub l2_ask_levels: Vec<(u32, u32)>,
    /// `Err(msg)` if `mid_price()` panicked
    pub mid: Result<u64, String>, // f64 bits so that Views: Eq-comparable by bits
    pub trade_vol: u32,
}

impl Views {
    pub fn mid_f64(&self) -> Option<f64> {
        self.mid.as_ref().ok().map(|b| f64::from_bits(*b))
    }
}

#[derive(Clone, PartialEq, Debug)]
pub struct Snap {
    pub time: u64,
    pub views: Views,
    pub orders: Vec<OrderRec>,
    pub trades: Vec<TradeRec>,
}

pub fn views_of<const L: usize>(b: &OrderBook<L>) -> Views {
    let l1 = b.level_1_data();
    let l2 = b.level_2_data();
    let mid = crate::util::subject(|| b.mid_price()).map(|m| m.to_bits());
    Views {
        bid_ask: b.bid_ask(),
        bid_vol: b.bid_vol(),
        ask_vol: b.ask_vol(),
        bid_best_vol: b.bid_best_vol(),
        ask_best_vol: b.ask_best_vol(),
        bid_best_vo: b.bid_best_vol_and_orders(),
        ask_best_vo: b.ask_best_vol_and_orders(),
        bid_levels: b.bid_levels().to_vec(),
        ask_levels: b.ask_levels().to_vec(),
        l1: [
            l1.bid_price,
            l1.ask_price,
            l1.bid_vol,
            l1.ask_vol,
            l1.bid_touch_vol,
            l1.ask_touch_vol,
            l1.bid_touch_orders,
            l1.ask_touch_orders,
        ],
        l2_head: [l2.bid_price, l2.ask_price, l2.bid_vol, l2.ask_vol],
        l2_bid_levels: l2.bid_price_levels.to_vec(),
        l2_ask_levels: l2.ask_price_levels.to_vec(),
        mid,
        trade_vol: b.get_trade_vol(),
    }
}

impl Snap {
    pub fn take<const L: usize>(b: &OrderBook<L>) -> Snap {
        Snap {
            time: b.get_time(),
            views: views_of(b),
            orders: b.get_orders().into_iter().map(OrderRec::of).collect(),
            trades: b.get_trades().iter().map(TradeRec::of).collect(),
        }
    }

    /// 64-bit digest of everything observable
    pub fn digest(&self) -> u64 {
        use std::hash::{Hash, Hasher};
        let mut h = crate::util::Fnv::default();
        self.time.hash(&mut h);
        self.orders.hash(&mut h);
        self.trades.hash(&mut h);
        let v = &self.views;
        v.bid_ask.hash(&mut h);
        v.bid_vol.hash(&mut h);
        v.ask_vol.hash(&mut h);
        v.bid_best_vo.hash(&mut h);
        v.ask_best_vo.hash(&mut h);
        v.bid_levels.hash(&mut h);
        v.ask_levels.hash(&mut h);
        v.l1.hash(&mut h);
        v.l2_head.hash(&mut h);
        v.trade_vol.hash(&mut h);
        match &v.mid {
            Ok(b) => b.hash(&mut h),
            Err(_) => 0xdeadu64.hash(&mut h),
        }
        h.finish()
    }

    pub fn describe_diff(&self, other: &Snap) -> String {
        if self.time != other.time {
            return format!("time {} vs {}", self.time, other.time);
        }
        if self.orders.len() != other.orders.len() {
            return format!("order count {} vs {}", self.orders.len(), other.orders.len());
        }
        for (a, b) in self.orders.iter().zip(other.orders.iter()) {
            if a != b {
                return format!("order {:?} vs {:?}", a, b);
            }
        }
        if self.trades.len() != other.trades.len() {
            return format!("trade count {} vs {}", self.trades.len(), other.trades.len());
        }
        for (a, b) in self.trades.iter().zip(other.trades.iter()) {
            if a != b {
                return format!("trade {:?} vs {:?}", a, b);
            }
        }
        if self.views != other.views {
            return format!("views {:?} vs {:?}", self.views, other.views);
        }
        "equal".into()
    }
}
