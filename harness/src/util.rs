//! Small helpers: panic capture, hashing, time.

use std::any::Any;
use std::cell::RefCell;
use std::hash::Hasher;

thread_local! {
    static LAST_PANIC: RefCell<String> = RefCell::new(String::new());
    static QUIET: std::cell::Cell<u32> = std::cell::Cell::new(0);
}

/// Run the subject under `catch_unwind` with panic output suppressed (the message is kept).
pub fn subject<T>(f: impl FnOnce() -> T) -> Result<T, String> {
    QUIET.with(|q| q.set(q.get() + 1));
    let r = std::panic::catch_unwind(std::panic::AssertUnwindSafe(f));
    QUIET.with(|q| q.set(q.get() - 1));
    r.map_err(|e| panic_msg(&e))
}

/// Install a panic hook that records the message (with location) per thread instead of
/// printing it: the subject is run inside `catch_unwind` millions of times.
pub fn install_quiet_panic_hook() {
    std::panic::set_hook(Box::new(|info| {
        let loc = info
            .location()
            .map(|l| format!("{}:{}", l.file(), l.line()))
            .unwrap_or_default();
        let msg = if let Some(s) = info.payload().downcast_ref::<&str>() {
            s.to_string()
        } else if let Some(s) = info.payload().downcast_ref::<String>() {
            s.clone()
        } else {
            "panic".to_string()
        };
        if QUIET.with(|q| q.get()) == 0 {
            eprintln!("HARNESS PANIC: {} @ {}", msg, loc);
        }
        LAST_PANIC.with(|p| *p.borrow_mut() = format!("{} @ {}", msg, loc));
    }));
}

pub fn panic_msg(e: &Box<dyn Any + Send>) -> String {
    let hook = LAST_PANIC.with(|p| p.borrow().clone());
    if !hook.is_empty() {
        return hook;
    }
    if let Some(s) = e.downcast_ref::<&str>() {
        s.to_string()
    } else if let Some(s) = e.downcast_ref::<String>() {
        s.clone()
    } else {
        "panic".to_string()
    }
}

/// Location-free form of a panic message, for stable signatures
pub fn panic_sig(msg: &str) -> String {
    let m = msg.split(" @ ").next().unwrap_or(msg);
    let m: String = m
        .chars()
        .map(|c| if c.is_ascii_alphanumeric() { c } else { '-' })
        .collect();
    let mut out = String::new();
    let mut last_dash = false;
    for c in m.chars() {
        if c == '-' {
            if !last_dash {
                out.push(c);
            }
            last_dash = true;
        } else if c.is_ascii_digit() {
            // numbers vary with the witness; drop them
            if !last_dash {
                out.push('-');
            }
            last_dash = true;
        } else {
            out.push(c.to_ascii_lowercase());
            last_dash = false;
        }
    }
    let out = out.trim_matches('-').to_string();
    out.chars().take(60).collect()
}

#[derive(Clone)]
pub struct Fnv(u64);
impl Default for Fnv {
    fn default() -> Self {
        Fnv(0xcbf29ce484222325)
    }
}
impl Hasher for Fnv {
    fn finish(&self) -> u64 {
        // final avalanche
        let mut x = self.0;
        x ^= x >> 33;
        x = x.wrapping_mul(0xff51afd7ed558ccd);
        x ^= x >> 33;
        x
    }
    fn write(&mut self, bytes: &[u8]) {
        for b in bytes {
            self.0 ^= *b as u64;
            self.0 = self.0.wrapping_mul(0x100000001b3);
        }
    }
}

pub fn fnv_of<T: std::hash::Hash>(t: &T) -> u64 {
    let mut h = Fnv::default();
    t.hash(&mut h);
    h.finish()
}

pub fn env_u64(name: &str, default: u64) -> u64 {
    std::env::var(name)
        .ok()
        .and_then(|s| s.trim().parse::<u64>().ok())
        .unwrap_or(default)
}

pub fn n_threads() -> usize {
    let n = std::thread::available_parallelism()
        .map(|n| n.get())
        .unwrap_or(4);
    env_u64("VERIF_THREADS", n as u64) as usize
}


/// resident set size of this process in bytes (0 if /proc is unreadable)
pub fn rss_bytes() -> u64 {
    std::fs::read_to_string("/proc/self/statm")
        .ok()
        .and_then(|s| s.split_whitespace().nth(1).and_then(|x| x.parse::<u64>().ok()))
        .map_or(0, |pages| pages * 4096)
}

static LAST_JOB: std::sync::Mutex<String> = std::sync::Mutex::new(String::new());

/// Engines without per-execution slots publish a coarse description of the job in progress.
pub fn publish_job(desc: String) {
    if let Ok(mut g) = LAST_JOB.lock() {
        *g = desc;
    }
}

/// Waiting made visible, memory edition: a subject that loops while allocating would get the
/// whole harness killed by the kernel, which is no verdict at all. A watchdog thread ends the run
/// with a violation of the property under check instead (the checks themselves stay below 1 GB).
pub fn start_rss_watchdog() {
    let cap = env_u64("VERIF_RSS_GB", 12) * (1 << 30);
    std::thread::spawn(move || loop {
        std::thread::sleep(std::time::Duration::from_millis(100));
        if rss_bytes() > cap {
            let prop = std::env::var("BVERIF_PROPERTY").unwrap_or_else(|_| "C00".into());
            let job = LAST_JOB.lock().map(|g| g.clone()).unwrap_or_default();
            let dir = crate::report::replay_dir();
            let _ = std::fs::create_dir_all(&dir);
            let path = format!("{}/{}-hang-memory-exhausted.json", dir, prop);
            let v = serde_json::json!({"property": prop, "signature": "hang/memory-exhausted",
                "observed": format!("the process grew beyond {} GB while executing the library on a valid history (a loop in the library allocates without terminating)", cap >> 30),
                "job_in_progress": job});
            let _ = std::fs::write(&path, serde_json::to_string_pretty(&v).unwrap());
            println!("VIOLATION property={} replay={}", prop, path);
            crate::ops::cleanup_scratch();
            std::process::exit(1);
        }
    });
}
