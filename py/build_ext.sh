#!/bin/bash
# Build the PyO3 extension from /repo's current working tree into /verif/.build/pyext (offline).
set -u
export CARGO_NET_OFFLINE=true
export PYO3_PYTHON="$(readlink -f "$(command -v python3-vt)")"
cd /repo || exit 2
if ! CARGO_TARGET_DIR=/verif/.build/pyext cargo build -p bourse --release --offline -q 2> /verif/.build/pyext-build.log; then
  echo "MACHINERY-ERROR: the Python extension does not build (see /verif/.build/pyext-build.log)" >&2
  tail -20 /verif/.build/pyext-build.log >&2
  exit 2
fi
exit 0
