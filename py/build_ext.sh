#!/bin/bash
# Build the PyO3 extension from /repo's current working tree into /verif/.build/pyext (offline).
set -u
export CARGO_NET_OFFLINE=true
export PYO3_PYTHON="$(readlink -f "$(command -v python3-vt)")"
REPO="${VERIF_REPO:-/repo}"
BUILD="${VERIF_BUILD:-/verif/.build}"
cd "$REPO" || exit 2
if ! CARGO_TARGET_DIR="$BUILD/pyext" cargo build -p bourse --release --offline -q 2> "$BUILD/pyext-build.log"; then
  echo "MACHINERY-ERROR: the Python extension does not build (see $BUILD/pyext-build.log)" >&2
  tail -20 "$BUILD/pyext-build.log" >&2
  exit 2
fi
exit 0
