#!/usr/bin/env python3
"""CPython side of the trace conformance checks C18 / C19 (DESIGN §2.7).

usage: driver.py <c18|c19> <work dir> <result file>

Replays every trace of <work dir>/traces.jsonl on the freshly built extension module
(/verif/.build/pyext/release/libbourse.so, loaded as module `core`) and compares with the
expectations the Rust side computed from the Rust crates.
"""
import importlib.util
import json
import os
import sys

mode, work, result_path = sys.argv[1], sys.argv[2], sys.argv[3]
SHARD, SHARDS = (int(sys.argv[4]), int(sys.argv[5])) if len(sys.argv) > 5 else (0, 1)
SO = os.environ.get("VERIF_BUILD", "/verif/.build") + "/pyext/release/libbourse.so"
spec = importlib.util.spec_from_file_location("core", SO)
core = importlib.util.module_from_spec(spec)
spec.loader.exec_module(core)
import numpy as np  # noqa: E402

BIG = {"-1": -1, "2**32": 2**32, "2**64": 2**64}

failures = {}
counters = {}


def count(k, n=1):
    counters[k] = counters.get(k, 0) + n


def fail(sig, detail, trace):
    if sig not in failures or len(trace["calls"]) < len(failures[sig]["trace"]["calls"]):
        failures[sig] = {"sig": sig, "detail": detail[:1500], "trace": {k: trace[k] for k in trace if k in ("id", "kind", "seed", "tick", "calls")}}


def arg(x):
    return BIG[x] if isinstance(x, str) else x


def tl(x):
    """normalise tuples / numpy values to plain lists"""
    if isinstance(x, (tuple, list)):
        return [tl(y) for y in x]
    if isinstance(x, np.ndarray):
        return [tl(y) for y in x.tolist()]
    if isinstance(x, (np.integer,)):
        return int(x)
    if isinstance(x, (np.bool_,)):
        return bool(x)
    return x


# ---------------------------------------------------------------------------------------------
# OrderBook
# ---------------------------------------------------------------------------------------------
def ob_state(ob):
    return {
        "bid_ask": tl(ob.bid_ask()),
        "bid_vol": ob.bid_vol(),
        "ask_vol": ob.ask_vol(),
        "best_bid_vol": ob.best_bid_vol(),
        "best_ask_vol": ob.best_ask_vol(),
        "best_bid_vol_and_orders": tl(ob.best_bid_vol_and_orders()),
        "best_ask_vol_and_orders": tl(ob.best_ask_vol_and_orders()),
        "orders": tl(ob.get_orders()),
        "trades": tl(ob.get_trades()),
    }


# How a call is spelled: "mixed" = as in the documentation's examples (optional arguments by name),
# "kw" = every argument by its documented name, "pos" = every argument by position with trailing
# optional arguments left out when they are None (so the declared defaults are what is used).
STYLE = ["mixed"]


def place_styled(obj, c):
    a, b, t, p = arg(c[1]), arg(c[2]), arg(c[3]), arg(c[4])
    if STYLE[0] == "kw":
        return obj.place_order(bid=a, vol=b, trader_id=t, price=p)
    if STYLE[0] == "pos":
        return obj.place_order(a, b, t) if p is None else obj.place_order(a, b, t, p)
    return obj.place_order(a, b, t, price=p)


def modify_styled(obj, c):
    i, p, v = arg(c[1]), arg(c[2]), arg(c[3])
    if STYLE[0] == "kw":
        return obj.modify_order(order_id=i, new_price=p, new_vol=v)
    if STYLE[0] == "pos":
        if v is None and p is None:
            return obj.modify_order(i)
        return obj.modify_order(i, p) if v is None else obj.modify_order(i, p, v)
    return obj.modify_order(i, new_price=p, new_vol=v)


def cancel_styled(obj, c):
    return obj.cancel_order(order_id=arg(c[1])) if STYLE[0] == "kw" else obj.cancel_order(arg(c[1]))


def new_ob(tr):
    trading = tr.get("trading", True)
    if STYLE[0] == "kw":
        return core.OrderBook(start_time=0, tick_size=tr["tick"], trading=trading)
    if STYLE[0] == "pos":
        return core.OrderBook(0, tr["tick"]) if trading else core.OrderBook(0, tr["tick"], False)
    return core.OrderBook(0, tr["tick"]) if trading else core.OrderBook(0, tr["tick"], trading=False)


def new_env(tr):
    trading = tr.get("trading", True)
    if STYLE[0] == "kw":
        return core.StepEnv(seed=tr["seed"], start_time=tr.get("start", 0), tick_size=tr["tick"], step_size=tr["step_size"], trading=trading)
    if STYLE[0] == "pos" or not trading:
        return core.StepEnv(tr["seed"], tr.get("start", 0), tr["tick"], tr["step_size"]) if trading else core.StepEnv(tr["seed"], tr.get("start", 0), tr["tick"], tr["step_size"], False)
    return core.StepEnv(tr["seed"], tr.get("start", 0), tr["tick"], tr["step_size"])


def ob_call(ob, clock, k, c):
    """returns (ret, exception name)"""
    clock[0] = max(clock[0], k + 1)
    ob.set_time(clock[0])
    m = c[0]
    try:
        if m == "place":
            return place_styled(ob, c), None
        if m == "cancel":
            return cancel_styled(ob, c), None
        if m == "modify":
            return modify_styled(ob, c), None
        if m == "enable":
            return ob.enable_trading(), None
        if m == "disable":
            return ob.disable_trading(), None
        if m == "advance":
            clock[0] += c[1]
            return ob.set_time(clock[0]), None
        if m == "set_time":
            return ob.set_time(arg(c[1])), None
        raise RuntimeError("unknown call %r" % (c,))
    except (ValueError, OverflowError) as e:
        return None, type(e).__name__


def run_ob(tr):
    ob = new_ob(tr)
    clock = [0]
    calls = tr["calls"]
    before = None
    for k, c in enumerate(calls):
        # every getter is called between any two calls (a binding that caches must survive that)
        before = ob_state(ob)
        ret, exc = ob_call(ob, clock, k, c)
    count("ob_calls", len(calls))
    exp = tr["exp"]
    if exc != exp["exc"]:
        fail("python/orderbook/exception/%s-instead-of-%s" % (exc, exp["exc"]), "call %r raised %s, expected %s" % (calls[-1], exc, exp["exc"]), tr)
        return
    if exc is None and ret != exp["ret"]:
        fail("python/orderbook/return-value/%s" % calls[-1][0], "call %r returned %r, Rust core %r" % (calls[-1], ret, exp["ret"]), tr)
    st = ob_state(ob)
    if exc is not None and st != before:
        fail("python/orderbook/failed-call-changed-object/%s" % exc, "call %r raised %s but changed the book" % (calls[-1], exc), tr)
    # looking must not change anything: the same calls on a second object WITHOUT any getter in
    # between (a binding that fills a cache when read, or refreshes lazily) end in the same state
    ob_c = new_ob(tr)
    clock_c = [0]
    for k, c in enumerate(calls):
        ob_call(ob_c, clock_c, k, c)
    st_c = ob_state(ob_c)
    if st_c != st:
        key = [k for k in st if st[k] != st_c[k]][0]
        fail("python/orderbook/observation-changes-behaviour/%s" % key, "calls %r: with every getter read between the calls %s = %r, without any read in between %r" % (calls, key, st[key], st_c[key]), tr)
    # how a call is spelled must not matter: every argument by its documented name / every argument by
    # position with the optional ones left out when None (the declared defaults)
    for style in ("kw", "pos"):
        STYLE[0] = style
        try:
            ob_s = new_ob(tr)
            clock_s = [0]
            exc_s = None
            for k, c in enumerate(calls):
                _, exc_s = ob_call(ob_s, clock_s, k, c)
            st_s = ob_state(ob_s)
        except TypeError as e:
            STYLE[0] = "mixed"
            fail("python/orderbook/calling-convention/%s/TypeError" % style, "calls %r spelled %s: %s" % (calls, style, e), tr)
            continue
        STYLE[0] = "mixed"
        count("ob_styled_replays")
        if exc_s != exc or st_s != st_c:
            key = ([k for k in st_c if st_c[k] != st_s[k]] + ["exception"])[0]
            fail("python/orderbook/calling-convention/%s/%s" % (style, key), "calls %r spelled %s end with %s = %r (exception %r), spelled as in the docs %r (exception %r)" % (calls, style, key, st_s.get(key), exc_s, st_c.get(key), exc), tr)
    # ... and with exactly ONE look, before call j, for every j (what a cache refreshed by every
    # look and untouched without any look would hide)
    if not tr.get("bulk"):
        for j in range(1, len(calls)):
            ob_1 = core.OrderBook(0, tr["tick"]) if tr.get("trading", True) else core.OrderBook(0, tr["tick"], trading=False)
            clock_1 = [0]
            for k, c in enumerate(calls):
                if k == j:
                    ob_state(ob_1)
                ob_call(ob_1, clock_1, k, c)
            st_1 = ob_state(ob_1)
            if st_1 != st:
                key = [k for k in st if st[k] != st_1[k]][0]
                fail("python/orderbook/observation-changes-behaviour/%s" % key, "calls %r: with one look before call %d %s = %r, with a look between all calls %r" % (calls, j, key, st_1[key], st[key]), tr)
                break
    for key, want in exp["state"].items():
        if st[key] != want:
            fail("python/orderbook/getter/%s" % key, "after %r: %s = %r, Rust core %r" % (calls[-1], key, st[key], want), tr)
            break
    # statuses are the documented codes
    for o in st["orders"]:
        if ob.order_status(o[8]) != o[1] or o[1] not in (0, 1, 2, 3, 4) or not isinstance(o[0], bool):
            fail("python/orderbook/status-or-side-encoding", "order %r order_status %r" % (o, ob.order_status(o[8])), tr)
    # snapshot exchange
    if tr.get("snap_in"):
        try:
            ob2 = core.order_book_from_json(tr["snap_in"])
            st2 = ob_state(ob2)
            count("rust_snapshots_loaded")
            if st2 != st:
                fail("python/snapshot-written-by-rust-loads-differently-in-python", "%r vs %r" % (st2, st), tr)
            else:
                # ... and stays indistinguishable when driven further: sweep the loaded book
                ob2.enable_trading()
                t2 = clock[0] + 1
                ob2.set_time(t2)
                ob2.place_order(True, ob2.ask_vol() + 1, 9)
                ob2.set_time(t2 + 1)
                ob2.place_order(False, ob2.bid_vol() + 1, 9)
                got2 = tl(ob2.get_trades())[len(st["trades"]):]
                if [t[1:] for t in got2] != [t[1:] for t in exp["drain"]]:
                    fail("python/snapshot-written-by-rust-executes-differently-in-python", "sweeping the loaded book executes %r, Rust core %r" % (got2, exp["drain"]), tr)
        except Exception as e:  # noqa: BLE001
            fail("python/snapshot-written-by-rust-rejected-by-python", repr(e), tr)
    if tr.get("snap_out"):
        # the same path is written twice, the longer (pretty) document first: what Rust then loads
        # must be the second document alone
        ob.save_json_snapshot(tr["snap_out"], pretty=True)
        ob.save_json_snapshot(tr["snap_out"], pretty=(tr["id"] % 3 == 0))
        count("python_snapshots_written")
    # drain probe: sweep both sides, the trades expose the hidden queue order
    if exp.get("drain") is None:
        return  # (volumes too large for a sweep that stays a valid history)
    ob.enable_trading()
    n0 = len(st["trades"])
    clock[0] += 1
    ob.set_time(clock[0])
    ob.place_order(True, ob.ask_vol() + 1, 9)
    clock[0] += 1
    ob.set_time(clock[0])
    ob.place_order(False, ob.bid_vol() + 1, 9)
    got = tl(ob.get_trades())[n0:]
    # the Rust side stamps the sweep at (its clock)+1, +2: compare everything but the time stamps
    if [t[1:] for t in got] != [t[1:] for t in exp["drain"]]:
        fail("python/orderbook/sweep-executes-differently", "sweeping the book after %r executes %r, Rust core %r" % (calls[-1], got, exp["drain"]), tr)


# ---------------------------------------------------------------------------------------------
# StepEnv
# ---------------------------------------------------------------------------------------------
def env_state(env):
    return {
        "time": env.time,
        "bid_ask": tl(env.bid_ask),
        "bid_vol": env.bid_vol,
        "ask_vol": env.ask_vol,
        "best_bid_vol": env.best_bid_vol,
        "best_ask_vol": env.best_ask_vol,
        "best_bid_vol_and_orders": tl(env.best_bid_vol_and_orders),
        "best_ask_vol_and_orders": tl(env.best_ask_vol_and_orders),
        "trade_vol": env.trade_vol,
        "orders": tl(env.get_orders()),
        "trades": tl(env.get_trades()),
        "prices": tl(env.get_prices()),
        "volumes": tl(env.get_volumes()),
        "touch_volumes": tl(env.get_touch_volumes()),
        "touch_order_counts": tl(env.get_touch_order_counts()),
        "trade_volumes": tl(env.get_trade_volumes()),
    }


def env_call(env, c):
    m = c[0]
    try:
        if m == "place":
            return place_styled(env, c), None
        if m == "cancel":
            return cancel_styled(env, c), None
        if m == "modify":
            return modify_styled(env, c), None
        if m == "step":
            return env.step(), None
        if m == "enable":
            return env.enable_trading(), None
        if m == "disable":
            return env.disable_trading(), None
        raise RuntimeError("unknown call %r" % (c,))
    except (ValueError, OverflowError) as e:
        return None, type(e).__name__


def replay_env(tr, observe=True, only_before=None):
    env = new_env(tr)
    calls = tr["calls"]
    before = None
    ret = exc = None
    for k, c in enumerate(calls):
        # every getter is called between any two calls (a binding that caches must survive that);
        # with observe=False nothing is read until the end
        if observe and not tr.get("bulk") and (only_before is None or only_before == k):
            before = env_state(env)
            if observe == "arrays":
                env.level_1_data_array(), env.level_2_data_array(), env.get_market_data()
        ret, exc = env_call(env, c)
    return env, ret, exc, before


def run_env_c18(tr):
    env, ret, exc, before = replay_env(tr)
    calls = tr["calls"]
    count("env_calls", len(calls))
    exp = tr["exp"]
    if exc != exp["exc"]:
        fail("python/stepenv/exception/%s-instead-of-%s" % (exc, exp["exc"]), "call %r raised %s, expected %s" % (calls[-1], exc, exp["exc"]), tr)
        return
    if exc is None and calls[-1][0] == "place" and ret != exp["ret"]:
        fail("python/stepenv/return-value/place", "call %r returned %r, Rust core %r" % (calls[-1], ret, exp["ret"]), tr)
    st = env_state(env)
    if exc is not None and st != before:
        fail("python/stepenv/failed-call-changed-object/%s" % exc, "call %r raised %s but changed the environment" % (calls[-1], exc), tr)
    for key in st:
        if st[key] != exp["state"][key]:
            fail("python/stepenv/getter/%s" % key, "after %r: %s = %r, Rust core %r" % (calls[-1], key, st[key], exp["state"][key]), tr)
            break
    for o in st["orders"]:
        if env.order_status(o[8]) != o[1] or not isinstance(o[0], bool):
            fail("python/stepenv/status-or-side-encoding", "order %r order_status %r" % (o, env.order_status(o[8])), tr)
    # deterministic in the seed: a second replay gives the same observations
    env2, _, _, _ = replay_env(tr)
    if env_state(env2) != st:
        fail("python/stepenv/not-deterministic-in-seed", "two replays of the same calls with seed %r differ" % tr["seed"], tr)
    # ... and so does a replay during which nothing is read (looking must not change anything)
    env3, _, _, _ = replay_env(tr, observe=False)
    st3 = env_state(env3)
    if st3 != st:
        key = [k for k in st if st[k] != st3[k]][0]
        fail("python/stepenv/observation-changes-behaviour/%s" % key, "calls %r: with every getter read between the calls %s = %r, without any read in between %r" % (calls, key, st[key], st3[key]), tr)
    for style in ("kw", "pos"):
        STYLE[0] = style
        try:
            env_s, _, exc_s, _ = replay_env(tr, observe=False)
            st_s = env_state(env_s)
        except TypeError as e:
            STYLE[0] = "mixed"
            fail("python/stepenv/calling-convention/%s/TypeError" % style, "calls %r spelled %s: %s" % (calls, style, e), tr)
            continue
        STYLE[0] = "mixed"
        count("env_styled_replays")
        if exc_s != exc or st_s != st3:
            key = ([k for k in st3 if st3[k] != st_s[k]] + ["exception"])[0]
            fail("python/stepenv/calling-convention/%s/%s" % (style, key), "calls %r spelled %s end with %s = %r (exception %r), spelled as in the docs %r (exception %r)" % (calls, style, key, st_s.get(key), exc_s, st3.get(key), exc), tr)
    # ... and a replay with exactly one look, before call j, for every j
    if not tr.get("bulk"):
        for j in range(1, len(calls)):
            env4, _, _, _ = replay_env(tr, observe=True, only_before=j)
            st4 = env_state(env4)
            if st4 != st:
                key = [k for k in st if st[k] != st4[k]][0]
                fail("python/stepenv/observation-changes-behaviour/%s" % key, "calls %r: with one look before call %d %s = %r, with a look between all calls %r" % (calls, j, key, st4[key], st[key]), tr)
                break
    # drain probe through two more steps
    if exp.get("drain") is None:
        return
    env.enable_trading()
    n0 = len(st["trades"])
    env.place_order(True, env.ask_vol + 1, 9)
    env.step()
    env.place_order(False, env.bid_vol + 1, 9)
    env.step()
    got = tl(env.get_trades())[n0:]
    if got != exp["drain"]:
        fail("python/stepenv/sweep-executes-differently", "sweeping after %r executes %r, Rust core %r" % (calls[-1], got, exp["drain"]), tr)


# ---------------------------------------------------------------------------------------------
# C19: documented layouts
# ---------------------------------------------------------------------------------------------
L1_DOC = ["trade_vol", "bid_price", "ask_price", "bid_vol", "ask_vol", "bid_touch_vol", "bid_touch_orders", "ask_touch_vol", "ask_touch_orders"]
L2_DOC = ["trade_vol", "bid_price", "ask_price", "bid_vol", "ask_vol"]
for _i in range(10):
    L2_DOC += ["bid_vol_%d" % _i, "n_bid_%d" % _i, "ask_vol_%d" % _i, "n_ask_%d" % _i]
MD_KEYS = ["bid_price", "ask_price", "bid_vol", "ask_vol", "trade_vol"]
for _i in range(10):
    MD_KEYS += ["bid_vol_%d" % _i, "ask_vol_%d" % _i, "n_bid_%d" % _i, "n_ask_%d" % _i]
TRADE_COLS = ["time", "side", "price", "vol", "active_id", "passive_id"]
ORDER_COLS = ["side", "status", "arr_time", "end_time", "vol", "start_vol", "price", "trader_id", "order_id"]


def check_array(name, arr, doc, named, tr):
    a = tl(arr)
    if len(a) != len(doc):
        fail("python/layout/%s/length" % name, "%s has %d elements, documented %d" % (name, len(a), len(doc)), tr)
        return
    for k, q in enumerate(doc):
        if a[k] != named[q]:
            other = [n for n in doc if named[n] == a[k] and n != q]
            fail("python/layout/%s/index-%d-is-not-%s" % (name, k, q), "%s[%d] = %r but the documented quantity %s is %r (matches %s)" % (name, k, a[k], q, named[q], other[:3]), tr)
            return


def check_market_data(name, md, hist, tr):
    keys = sorted(md.keys())
    if keys != sorted(MD_KEYS):
        fail("python/layout/%s/keys" % name, "keys %r, documented %r" % (keys, sorted(MD_KEYS)), tr)
        return
    for k in MD_KEYS:
        if tl(md[k]) != hist[k]:
            fail("python/layout/%s/series-%s" % (name, k.rstrip("0123456789")), "%s[%r] = %r, recorded series %r" % (name, k, tl(md[k]), hist[k]), tr)
            return


def load_data_processing():
    import os
    sys.path.insert(0, "/verif/py/standin")
    spec = importlib.util.spec_from_file_location("bourse_data_processing", os.environ.get("VERIF_REPO", "/repo") + "/src/bourse/data_processing.py")
    mod = importlib.util.module_from_spec(spec)
    spec.loader.exec_module(mod)
    return mod


def check_frames(dp, orders, trades, tr):
    df = dp.trades_to_dataframe([tuple(t) for t in trades])
    if list(df.columns) != TRADE_COLS:
        fail("python/layout/trades_to_dataframe/columns", "columns %r, fields are %r" % (list(df.columns), TRADE_COLS), tr)
    else:
        for i, t in enumerate(trades):
            row = [df[c][i] for c in TRADE_COLS]
            want = [t[0], "bid" if t[1] else "ask", t[2], t[3], t[4], t[5]]
            if row != want:
                fail("python/layout/trades_to_dataframe/values", "row %r, record %r" % (row, want), tr)
                break
    df = dp.orders_to_dataframe([tuple(o) for o in orders])
    if list(df.columns) != ORDER_COLS:
        bad = [c for c in df.columns if c not in ORDER_COLS]
        fail("python/layout/orders_to_dataframe/columns", "columns %r, documented fields %r (unexpected: %r)" % (list(df.columns), ORDER_COLS, bad), tr)
    else:
        names = {0: "new", 1: "active", 2: "filled", 3: "cancelled", 4: "rejected"}
        for i, o in enumerate(orders):
            row = [df[c][i] for c in ORDER_COLS]
            want = ["bid" if o[0] else "ask", names[o[1]]] + list(o[2:])
            if row != want:
                fail("python/layout/orders_to_dataframe/values", "row %r, record %r" % (row, want), tr)
                break


def numpy_replay(tr, observe=False):
    """the same instructions through StepEnvNumpy (limit orders and cancellations only);
    observe: read the observation arrays and the market-data dictionary between all calls"""
    calls = tr["calls"]
    for c in calls:
        if c[0] == "modify" or c[0] in ("enable", "disable") or (c[0] == "place" and (c[4] is None or c[4] % tr["tick"] != 0)):
            return None
    env = core.StepEnvNumpy(tr["seed"], tr.get("start", 0), tr["tick"], tr["step_size"], trading=tr.get("trading", True))
    i = 0
    use_instr = tr["id"] % 2 == 0
    while i < len(calls):
        c = calls[i]
        if observe:
            env.level_1_data(), env.level_2_data(), env.get_market_data()
        if c[0] == "step":
            env.step()
            i += 1
            continue
        # batch consecutive submissions
        j = i
        batch = []
        while j < len(calls) and calls[j][0] in ("place", "cancel"):
            batch.append(calls[j])
            j += 1
        if use_instr:
            kind = np.array([1 if b[0] == "place" else 2 for b in batch] + [0], dtype=np.uint32)
            side = np.array([bool(b[1]) if b[0] == "place" else False for b in batch] + [False])
            vol = np.array([b[2] if b[0] == "place" else 0 for b in batch] + [0], dtype=np.uint32)
            trd = np.array([b[3] if b[0] == "place" else 0 for b in batch] + [0], dtype=np.uint32)
            prc = np.array([b[4] if b[0] == "place" else 0 for b in batch] + [0], dtype=np.uint32)
            oid = np.array([b[1] if b[0] == "cancel" else 0 for b in batch] + [0], dtype=np.uint64)
            env.submit_instructions((kind, side, vol, trd, prc, oid))
        else:
            for b in batch:
                if b[0] == "place":
                    env.submit_limit_orders((np.array([bool(b[1])]), np.array([b[2]], dtype=np.uint32), np.array([b[3]], dtype=np.uint32), np.array([b[4]], dtype=np.uint32)))
                else:
                    env.submit_cancellations(np.array([b[1]], dtype=np.uint64))
        i = j
    return env


MAXP = 2**32 - 1


def recompute_named(orders, tick, trade_vol):
    """the documented quantities recomputed from the order list alone (independent of the
    core's own level functions): status 1 = active; tuple = (side, status, arr, end, vol, start_vol, price, trader, id)"""
    bids = [o for o in orders if o[1] == 1 and o[0]]
    asks = [o for o in orders if o[1] == 1 and not o[0]]
    bp = max([o[6] for o in bids], default=0)
    ap = min([o[6] for o in asks], default=MAXP)
    named = {"trade_vol": trade_vol, "bid_price": bp, "ask_price": ap, "bid_vol": sum(o[4] for o in bids), "ask_vol": sum(o[4] for o in asks)}
    for i in range(10):
        pb, pa = bp - i * tick, ap + i * tick
        lb = [o for o in bids if o[6] == pb] if pb >= 0 else []
        la = [o for o in asks if o[6] == pa] if pa <= MAXP else []
        named["bid_vol_%d" % i], named["n_bid_%d" % i] = sum(o[4] for o in lb), len(lb)
        named["ask_vol_%d" % i], named["n_ask_%d" % i] = sum(o[4] for o in la), len(la)
    named["bid_touch_vol"], named["bid_touch_orders"] = named["bid_vol_0"], named["n_bid_0"]
    named["ask_touch_vol"], named["ask_touch_orders"] = named["ask_vol_0"], named["n_ask_0"]
    return named


def frames_length_sweep(dp):
    """both data-frame helpers on every history length 0..13 (real records of a StepEnv run)"""
    tr = {"id": -2, "kind": "frames", "seed": 1, "tick": 1, "calls": [["13 asks of volume 1 at 50, 13 market buys of volume 1, step; helpers on every prefix length"]]}
    env = core.StepEnv(1, 0, 1, 1000)
    for i in range(13):
        env.place_order(False, 1, 100 + i, price=50)
    env.step()
    for i in range(13):
        env.place_order(True, 1, 200 + i)
    env.step()
    orders, trades = tl(env.get_orders()), tl(env.get_trades())
    if len(trades) < 13 or len(orders) < 26:
        fail("python/abort/frames-setup", "expected 13 trades and 26 orders, got %d / %d" % (len(trades), len(orders)), tr)
        return
    for n in range(0, 14):
        check_frames(dp, orders[:n], trades[:n], tr)
        count("frame_lengths_checked")


def bulk_numpy_scenario():
    """more than 65535 orders on one price level, volumes beyond 2^31, through StepEnvNumpy"""
    tr = {"id": -1, "kind": "bulk", "seed": 3, "tick": 1, "calls": [["70000 bids of volume 1 at 50, 3 asks of 1e9 at 60, step, 2 asks of volume 2 at 50, step"]]}
    env = core.StepEnvNumpy(3, 0, 1, 100000)
    n = 70000
    env.submit_limit_orders((np.ones(n, dtype=bool), np.ones(n, dtype=np.uint32), np.arange(n, dtype=np.uint32), np.full(n, 50, dtype=np.uint32)))
    env.submit_limit_orders((np.zeros(3, dtype=bool), np.full(3, 1_000_000_000, dtype=np.uint32), np.array([7, 8, 9], dtype=np.uint32), np.full(3, 60, dtype=np.uint32)))
    env.step()
    for stepno in range(2):
        orders = tl(env.get_orders())
        named = recompute_named(orders, 1, tl(env.level_1_data())[0])
        check_array("StepEnvNumpy.level_1_data", env.level_1_data(), L1_DOC, named, tr)
        check_array("StepEnvNumpy.level_2_data", env.level_2_data(), L2_DOC, named, tr)
        md = env.get_market_data()
        for k in ("bid_vol", "ask_vol", "bid_vol_0", "ask_vol_0", "n_bid_0", "n_ask_0", "bid_price", "ask_price"):
            if int(tl(md[k])[-1]) != named[k]:
                fail("python/layout/StepEnvNumpy.get_market_data/series-%s" % k.rstrip("0123456789"), "bulk book: last entry of %r is %r but the order list gives %r" % (k, tl(md[k])[-1], named[k]), tr)
        count("bulk_states_checked")
        if stepno == 0:
            env.submit_limit_orders((np.zeros(2, dtype=bool), np.full(2, 2, dtype=np.uint32), np.array([11, 12], dtype=np.uint32), np.full(2, 50, dtype=np.uint32)))
            env.step()


def run_env_c19(tr, dp):
    if tr["exp"]["exc"] is not None:
        return
    # (the arrays and the dictionary are also read between all calls here; a second environment on
    # which nothing is read until the end must hand out the same arrays)
    env, _, _, _ = replay_env(tr, observe="arrays")
    envc, _, _, _ = replay_env(tr, observe=False)
    for nm, a, b in (("level_1_data_array", env.level_1_data_array(), envc.level_1_data_array()), ("level_2_data_array", env.level_2_data_array(), envc.level_2_data_array())):
        if tl(a) != tl(b):
            fail("python/layout/StepEnv.%s/observation-changes-values" % nm, "calls %r: read between all calls the array ends as %r, never read before as %r" % (tr["calls"], tl(a), tl(b)), tr)
    exp = tr["exp"]["state"]
    named, hist = exp["named"], exp["history"]
    # the documented quantities follow from the order list alone; what the Rust core reports for
    # them must agree (a core whose level functions drift from its own orders is caught here)
    # "trade volume (in the last step)": from the trade log and the clock alone, where the window of the
    # last step is unambiguous (step size far above the batch size)
    tv = named["trade_vol"]
    ss = tr.get("step_size", 100)
    if ss >= 100 and any(c[0] == "step" for c in tr["calls"]):
        now = env.time
        tv = sum(t[3] for t in tl(env.get_trades()) if now - ss <= t[0] < now)
    named2 = recompute_named(tl(env.get_orders()), tr["tick"], tv)
    for k, v in named2.items():
        if named[k] != v:
            fail("python/layout/documented-quantity-differs-from-order-list/%s" % k.rstrip("0123456789"), "%s: the core reports %r, the resting orders give %r" % (k, named[k], v), tr)
            break
    named = named2
    count("states_checked")
    if exp["asymmetric"]:
        count("asymmetric_states")
    check_array("StepEnv.level_1_data_array", env.level_1_data_array(), L1_DOC, named, tr)
    check_array("StepEnv.level_2_data_array", env.level_2_data_array(), L2_DOC, named, tr)
    check_market_data("StepEnv.get_market_data", env.get_market_data(), hist, tr)
    check_frames(dp, tl(env.get_orders()), tl(env.get_trades()), tr)
    ne = numpy_replay(tr)
    if ne is not None:
        count("numpy_env_states_checked")
        if tl(ne.get_orders()) != exp["orders"] or tl(ne.get_trades()) != exp["trades"]:
            fail("python/numpy-env/differs-from-stepenv", "orders/trades of StepEnvNumpy differ from the Rust core for the same instructions", tr)
            return
        check_array("StepEnvNumpy.level_1_data", ne.level_1_data(), L1_DOC, named, tr)
        check_array("StepEnvNumpy.level_2_data", ne.level_2_data(), L2_DOC, named, tr)
        check_market_data("StepEnvNumpy.get_market_data", ne.get_market_data(), hist, tr)
        # the same instructions with the arrays read between all calls
        nw = numpy_replay(tr, observe=True)
        check_array("StepEnvNumpy.level_1_data", nw.level_1_data(), L1_DOC, named, tr)
        check_array("StepEnvNumpy.level_2_data", nw.level_2_data(), L2_DOC, named, tr)
        check_market_data("StepEnvNumpy.get_market_data", nw.get_market_data(), hist, tr)


def main():
    n = calls = 0
    dp = load_data_processing() if mode == "c19" else None
    if mode == "c19" and SHARD == 0:
        try:
            bulk_numpy_scenario()
            frames_length_sweep(dp)
            n += 2
        except BaseException as e:  # noqa: BLE001
            if isinstance(e, (KeyboardInterrupt, SystemExit)):
                raise
            fail("python/abort/%s" % type(e).__name__, "the bulk scenario raised %r" % (e,), {"id": -1, "kind": "bulk", "calls": [["bulk"]]})
    with open(work + "/traces.jsonl") as f:
        for ln, line in enumerate(f):
            if ln % SHARDS != SHARD:
                continue
            tr = json.loads(line)
            n += 1
            calls += len(tr["calls"])
            try:
                if mode == "c18":
                    if tr["kind"] == "ob":
                        run_ob(tr)
                    else:
                        run_env_c18(tr)
                else:
                    run_env_c19(tr, dp)
            except BaseException as e:  # PanicException derives from BaseException
                if isinstance(e, (KeyboardInterrupt, SystemExit)):
                    raise
                fail("python/abort/%s" % type(e).__name__, "replaying the trace raised %r" % (e,), tr)
    out = {
        "traces": n,
        "calls": calls,
        "failures": list(failures.values()),
        "counters": counters,
        "python": sys.version.split()[0],
        "numpy": np.__version__,
        "module": SO,
    }
    with open(result_path, "w") as f:
        json.dump(out, f)


main()
