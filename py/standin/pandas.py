"""Minimal stand-in for pandas (not installed offline): exactly what
bourse.data_processing uses - DataFrame.from_records(records, columns=...),
df[col], df[col] = ..., Series.map(dict)."""


class Series(list):
    def map(self, mapping):
        return Series(mapping.get(x, None) if isinstance(mapping, dict) else mapping(x) for x in self)


class DataFrame:
    def __init__(self, columns, data):
        self.columns = list(columns)
        self._data = data

    @classmethod
    def from_records(cls, records, columns=None):
        records = [tuple(r) for r in records]
        if columns is None:
            raise TypeError("stand-in needs explicit columns")
        for r in records:
            if len(r) != len(columns):
                raise ValueError("%d columns passed, passed data had %d columns" % (len(columns), len(r)))
        data = {c: Series(r[i] for r in records) for i, c in enumerate(columns)}
        return cls(columns, data)

    def __getitem__(self, key):
        return self._data[key]

    def __setitem__(self, key, value):
        if key not in self._data:
            self.columns.append(key)
        self._data[key] = Series(value)

    def __len__(self):
        return len(next(iter(self._data.values()))) if self._data else 0
