#!/usr/bin/env python3
"""Copies the verified round-10 seeded changes (a = configuration-dependent, b = call-pattern-dependent) into /verif/seeded/."""
import json, os, shutil, glob, re
S = {
 "C01": ("grid test in create_order merged into one check on order.price: it also hits the buy market order's price 2^32-1", "a tick size not dividing 2^32-1 and a market buy",
         "modify_order resolves defaults up front; the (None, None) arm is gone: an empty modification re-queues", "modify(id, None, None) on an Active order with a later order queued behind it"),
 "C02": ("per-side 'latest queue time handed out' fast path compares the raw clock with capped key times", "a book whose clock is at or beyond 2^63 and two orders at one price",
         "mid_price rewritten as bid + 0.5 * saturating spread", "a crossed book (orders placed during a halt): mid_price returns the best bid"),
 "C03": ("book clock kept as time elapsed since start_time; the matching loops still pass the raw field", "a book built with start_time != 0 and any trade: Trade.t is off by start_time",
         "trades serialised without side and price, refilled on load from the passive order's current state", "a partly filled passive order re-priced later, then a reload: old log entries change"),
 "C04": ("a buy market order stores the price 2^32-1 rounded down onto the grid", "a tick size not dividing 2^32-1 and a market buy that is not completely filled (or placed while trading is off): it rests as Active",
         "a market order created while trading is disabled is marked Rejected at creation", "create during a halt, place after enable_trading()"),
 "C05": ("next_queue_time returns the raw clock for the first order of a level, before the cap", "a book whose clock is at (or within a few units of) 2^64-1 and two orders at one price",
         "queue keys from a per-side running counter that the snapshot loader does not rebuild", "a reload, then a placement onto a level whose queue already holds the key the newcomer is handed"),
 "C06": ("modify_order gains a limit-price range guard tick <= p <= MAX - tick", "a tick size not dividing 2^32-1 and a modify onto the highest grid price: silently dropped",
         "modify_order's status gate becomes an early return for Filled/Cancelled/Rejected: New is forgotten", "create, modify, place: the unplaced order is run through reduce / replace"),
 "C07": ("each side stores the tick size for its level views; the snapshot loader builds the sides with default() (tick 1)", "tick != 1, a reload, then a level view with a second populated level in the window",
         "queue keys from a per-side running counter that is not serialised", "a burst of same-instant orders at different prices, a reload, then a placement onto one of those levels within fewer ticks than the burst"),
 "C08": ("Env::step computes its start as n_steps * step_size", "an Env built with start_time != 0",
         "Env/MarketEnv::place_order reject a market order at once when trading is disabled at submission", "a market order submitted after disable_trading(): it takes no slot in the batch (and is lost if trading is re-enabled before the step)"),
 "C09": ("runners seed through session_rng(seed, t0): for t0 != 0 it mixes in a RandomState hash", "an environment built with start_time != 0 (or a second runner call on a stepped environment)",
         "if instructions are already queued when a run starts the first step skips the agents - except in the tqdm arm of market_sim_runner", "orders placed on a MarketEnv before market_sim_runner, progress bar on vs off"),
 "C10": ("MarketEnv::step records and stores the per-asset snapshots in a loop bounded by take(LEVELS)", "more assets than levels",
         "Env keeps the previous snapshot and swaps buffers every step but recomputes only when the queue was non-empty", "a step with an empty queue directly after a step that changed the book"),
 "C11": ("per-step traded volume summed from the log tail with trade.t / step_size == start / step_size", "a start time that is not a multiple of the step size", None, None),
 "C12": ("modify_order tests the price MOVE (p.wrapping_sub(current) % tick)", "a tick that is not a power of two and a modify that lowers the price to an off-grid value of the right residue",
         "process_event(Event::Modify) calls the unchecked inner function", "an off-grid modify that reaches the book as an instruction (process_event, Env::modify_order + step)"),
 "C13": ("halt log: enable_trading only acts when the log holds an open halt record, which only disable_trading writes", "a book / market / environment BUILT with trading off: enable_trading does nothing",
         "a volume-only reduction of a marketable order is sent through replace_order", "a book left crossed by a halt, trading re-enabled, then a pure reduction of a crossing order: it trades"),
 "C14": ("MarketEnv::step caps each instruction's time at the end of the step", "a step size smaller than the number of instructions queued across all assets",
         "MarketEnv::modify_order folds a second modification of an order into the one already queued", "modify_order called twice for one order before the next step"),
 "C15": ("while the trading flag is off, queued market orders are sent to the book before the shuffle", "an environment with trading off and a market order in the batch",
         "a trading switch called while instructions are queued becomes a barrier: the queue is shuffled segment by segment", "a (redundant) enable_trading()/disable_trading() between two submissions of one step"),
 "C16": ("momentum agents cap p_market with min(1.0) before deriving p_limit", "demand > n_agents together with order_ratio < 1",
         "cancel_live_orders matches on the status with Status::New => unreachable!()", "update called twice with no step in between after a limit order was placed: the simulation aborts"),
 "C17": ("MomentumParams::normalised() clamps decay into [0, 1]", "decay > 1 or < 0",
         "memory faded by (1-decay).powi(env steps since the last update)", "update calls not one-to-one with env steps (two updates without a step; two steps without an update)"),
 "C18": ("Python order_book_from_json refuses any order price that is not a multiple of the tick size", "a tick size not dividing 2^32-1 and a buy market order anywhere in the history: a snapshot Python wrote does not load",
         "Python save_json_snapshot opens the file without truncate", "a save to a path that already holds a longer file"),
 "C19": ("Env::get_trade_vol() computed from the trade log by binary search on the step start", "a step size smaller than the number of events in a step: late trades are counted again",
         "bid_levels/ask_levels stop once the side's whole volume has been found", "a resting order with zero volume (modify to 0, or placed with volume 0): its level's order count reads 0"),
 "C20": ("provided is_idle() hook: derives skip idle members; RandomAgents report idle for activity_rate 0", "a derived set with a RandomAgents member built with activity_rate 0 (its update still takes one draw per agent)",
         "derives call dedup_cancellations() after the last member", "two cancellations of one order id waiting when a derived update returns"),
}
def nxt(prop):
    nums = [int(re.search(r'-(\d+)$', d).group(1)) for d in glob.glob(f'/verif/seeded/{prop}-*')]
    return max(nums) + 1
n = 0
for prop, (ca, na, cb, nb) in S.items():
    for letter, change, needs in (("a", ca, na), ("b", cb, nb)):
        if change is None:
            continue
        sd = f"/tmp/seeds10/{prop}/{letter}"
        d = f"/verif/seeded/{prop}-{nxt(prop)}"
        os.makedirs(d)
        shutil.copy(f"{sd}/patch.diff", f"{d}/patch.diff")
        demo = "demo.py" if os.path.exists(f"{sd}/demo.py") else "demo.rs"
        shutil.copy(f"{sd}/{demo}", f"{d}/{demo}")
        if os.path.exists(f"{sd}/notes.md"):
            shutil.copy(f"{sd}/notes.md", f"{d}/notes.md")
        meta = {
            "property": prop, "round": 10, "change": change, "needs_to_manifest": needs, "demonstration": demo,
            "author": "independent sub-agent (working directory outside /verif) given the property text, the one-line descriptions of the earlier changes and a scratch worktree; asked for a = a configuration-dependent change (const generics, constructor arguments, relations between them), b = a call-pattern-dependent change (repeated / redundant calls, unusual object states, mixed entry points, empty steps)",
            "confirmed_by_me": {
                "where": "scratch worktrees /tmp/wt/verify<n> at /repo HEAD 6080636 (removed afterwards)",
                "commands": ["tools/verify_round.sh /tmp/seeds10"],
                "suite_with_patch": "39 unit tests + 29 doc-tests pass", "demo_without_patch": "passes", "demo_with_patch": "fails",
            },
        }
        json.dump(meta, open(f"{d}/meta.json", "w"), indent=1)
        n += 1
print(n, "seeds curated")
