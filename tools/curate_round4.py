#!/usr/bin/env python3
"""Copies the verified round-4 seeded changes from /tmp/seeds4 into /verif/seeded/<Cxx-7|8>/ with meta.json."""
import json, os, shutil
S = {
 "C01": ("closing the aggressive order (Filled, end time) moved from match_orders to the four place_* callers; replace_order still tests status != Filled", "a re-pricing / re-sizing modify that crosses and is consumed exactly: the order is re-queued Active with volume 0",
         "cancel_order gains a Status::New arm that marks an unplaced order Cancelled", "create_order, cancel (direct or Event::Cancellation), then place_order / Event::New"),
 "C02": ("volume increase at unchanged price re-queues in place; the side skips re-keying a lone order while the book stores the new key", "lone order on its level, volume-only increase at a later time, then the order leaves by key (cancel, full fill, re-price): ghost entry in the priority map",
         "cancel_order accepts created-but-unplaced orders and removes their volume from the side", "create_order, then cancel of that New order while another order rests at the same side and price"),
 "C03": ("closing the aggressive order moved out of match_orders to the place_* callers (replace_order forgotten)", "a modify through the replace path that crosses and fills the modified order exactly, then an opposite aggressor at that price: zero-volume trade record",
         "modify_order amends a created-but-unplaced order; the queue key computed at creation is not refreshed", "create_order, price modify while New, place, then an aggressor whose limit lies between old and new price: trade logged at a price its limit does not admit"),
 "C04": ("modify_order loses its Active guard, replace_order gains its own, reduce_order_vol stays unguarded; remove_vol softened", "volume-only modify below the remaining volume aimed at a Cancelled / Rejected / New order",
         "market-order rejection while trading is off centralised in place_order before the status != New early return", "market order finished while trading was on, disable_trading, then a redundant place_order / Event::New: Filled or Cancelled flips to Rejected"),
 "C05": ("per-level queue-tail time cached next to the level volume (set on insert); the snapshot loader re-inserts in id order", "place A, place B, re-queuing modify of A, save/load, place C at that price without advancing the clock, then aggressor or cancel of A (hand-ported onto the tree with the clock-end fix)",
         "replace_order reuses the old key when the price is unchanged and the key time is at or after the clock", "same-price re-queuing modify of an order that is not the tail of its level while keys stand at/after the clock (ties, or more instructions than step size)"),
 "C06": ("last-inserted memo on the side: a same-price re-queue of the most recently inserted order returns early; requeue itself does not update the memo", "A then B at one price, re-enter A at its own price, then re-enter B the same way: B keeps its place ahead of A",
         "modify_order drops a modification whose price reaches the opposite best price while trading is off", "trading off, non-empty opposite side, modify to a price at or through the opposite touch"),
 "C07": ("snapshot omits the queue key of orders not on the book; the loader defaults it to (side, price, 0)", "a bid created with create_order still New at the snapshot, reload, then place_order: rests at the un-inverted key price",
         "traded-volume counter no longer stored in the snapshot, recomputed as the sum of all logged trades", "a trade, reset_trade_vol (or Market::reset_trade_vols), then snapshot and reload"),
 "C08": ("Env/MarketEnv::step re-queue a cancel/modify whose target is still New to the back of a work queue; the clock tick sits at the top of the loop", "cancel or modify of an order submitted in the same step, shuffled before its New: later instructions get start+i+k",
         "end-of-step clock jump goes to the next multiple of the step size after the last event", "an environment whose start time is not a multiple of the step size (first step only)"),
 "C09": ("thread-local memo of the momentum agents' order probability keyed by the signal only", "an earlier simulation on the same thread with different demand/scale/agent count that produced a common momentum value",
         "thread-local table of level price offsets rebuilt only when LEVELS changes (tick size ignored)", "two books with equal LEVELS and different tick sizes queried on one thread; only level-2 depth beyond the touch is affected"),
 "C10": ("instructions shuffled ahead of their own order's New are held over to the next step; the level-2 snapshot is recomputed only if the queue was non-empty", "order created and cancelled/modified in one window, instruction drawn before the New, followed by an empty step",
         "Env/MarketEnv::modify_order applies a pure volume reduction of an Active order immediately instead of queuing it", "volume-only modify below the current volume of an Active order, observed between submission and step"),
 "C11": ("traded-volume accounting moved from match_bid/match_ask into place_order (replace_order forgotten)", "a step containing a modify that makes a resting order trade",
         "MarketEnv::step records per-asset series with take(LEVELS) over the level-2 array", "more assets than published levels, e.g. MarketEnv<2,1>, <4,2> (same mechanism as C08-6/C14-6, different site)"),
 "C12": ("modify_order changes price/volume of a created-but-unplaced order without refreshing its pre-computed key", "create, modify to another on-grid price while New, place: rests in the level of the old price",
         "modify_order skips the grid test when the new price equals the side key (for bids the key is 2^32-1 - price)", "bid at q, tick not dividing 2^32-1, modify(id, Some(2^32-1-q), None)"),
 "C13": ("'crossed' memo raised by placements while trading is off (not by modifies); replace_order skips matching when the memo is clear and the new price is not more aggressive", "book crossed by a modify while disabled, re-enabled, then the crossing order re-priced away from the touch but still crossing",
         "nested halt counter behind enable_trading/disable_trading", "more disables than enables (redundant disable, per-asset plus market-wide toggles, disable on a book constructed with trading off)"),
 "C14": ("Market::process_event reports whether the instruction applied; MarketEnv::step advances the intra-step clock only for applied instructions", "a batch holding a no-op instruction (cancel/modify of a dead order, or shuffled before its New) ahead of an effective one",
         "market-wide trading toggles return early when asset 0 already has the requested state", "per-asset toggle through get_order_book_mut followed by a market-wide toggle (same mechanism as C13-4)"),
 "C15": ("two or more cancellations in a queue are collapsed through a HashSet and re-appended before the shuffle", "at least two cancellations of different orders in one step; two executions with the same generator state differ",
         "after the shuffle, cancels/modifies whose target is still New are moved behind every other instruction", "a batch with a cancel or modify of an order submitted in the same step"),
 "C16": ("momentum agents return early (before cancelling) when the order probability is zero", "p_cancel >= 1, live orders, and a step in which the momentum is exactly 0 (flat mid-price, decay 1)",
         "noise agents pick limit vs market from one uniform draw (categorical)", "p_limit > 0 and p_limit + p_market > 1, e.g. 0.3/1.0 or 1.0/1.0"),
 "C17": ("momentum update refactored into a helper that stores the last price up-front and returns before storing M when M is exactly 0", "0 < decay < 1 and a path whose reversal exactly cancels the accumulated momentum, then another move",
         "order side taken from the sign of demand*tanh(scale*M) instead of the sign of M", "exactly one of demand, scale negative"),
 "C18": ("Python OrderBook.bid_ask served from a memo kept when a new limit order is priced at or behind the memoised touch", "a book crossed while trading was off, re-enabled, bid_ask read, then a 'passive' order that trades",
         "Python StepEnv drops cancel/modify instructions aimed at completed orders instead of queueing them", "cancel/modify of a Filled/Cancelled/Rejected order in the same step as other instructions (shorter queue: other shuffle, other stamps)"),
 "C19": ("per-side revision counter bumped when an order joins or leaves; Env::step rebuilds a side's per-level data only if the revision moved or something traded", "a trade-free step whose only effect on a side is an in-place volume reduction",
         "Env::step fast path for an empty queue skips reset_trade_vol", "a step with trades followed by idle steps, then an array read (index 0 keeps the old traded volume)"),
 "C20": ("environments get a per-step 'agents updated' latch; both derives begin with if !env.begin_agent_update() { return; }", "a field that is itself a derived set, or two update calls without a step in between",
         "derive input parsed by a small custom parser that records a field only after consuming the comma behind it", "a field list without a trailing comma (one-line structs, macro_rules! $(..),* shapes)"),
}
n = 0
for prop, (ca, na, cb, nb) in S.items():
    for letter, num, change, needs in (("a", 7, ca, na), ("b", 8, cb, nb)):
        sd = f"/tmp/seeds4/{prop}/{letter}"
        d = f"/verif/seeded/{prop}-{num}"
        os.makedirs(d, exist_ok=True)
        shutil.copy(f"{sd}/patch.diff", f"{d}/patch.diff")
        demo = "demo.py" if os.path.exists(f"{sd}/demo.py") else "demo.rs"
        shutil.copy(f"{sd}/{demo}", f"{d}/{demo}")
        if os.path.exists(f"{sd}/notes.md"):
            shutil.copy(f"{sd}/notes.md", f"{d}/notes.md")
        meta = {
            "property": prop, "round": 4, "change": change, "needs_to_manifest": needs, "demonstration": demo,
            "author": "independent sub-agent given only the property text, the one-line descriptions of earlier changes (to avoid repeats), a scratch worktree, and the request for (a) two cooperating sites / state carried across operations needing a multi-step history, (b) a feature interaction, rarely used entry point or rare configuration",
            "confirmed_by_me": {
                "where": "scratch worktrees /tmp/wt/verify<n> at /repo HEAD 6080636 (removed afterwards)",
                "commands": ["tools/verify_round.sh /tmp/seeds4"],
                "suite_with_patch": "39 unit tests + 29 doc-tests pass", "demo_without_patch": "passes", "demo_with_patch": "fails",
            },
        }
        json.dump(meta, open(f"{d}/meta.json", "w"), indent=1)
        n += 1
print(n, "seeds curated")
