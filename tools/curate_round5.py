#!/usr/bin/env python3
"""Copies the verified round-5 seeded changes from /tmp/seeds5 into /verif/seeded/<Cxx-9|10>/ with meta.json."""
import json, os, shutil
S = {
 "C01": ("bid_ask() remembers the touch it reported; limit placement skips matching when the remembered quote says it cannot cross; replace_order does not clear it", "a read through bid_ask (or any view built on it), then a resting order re-priced to a better price without trading, no read, then an opposite limit order priced between the new and the old touch",
         "match_bid / match_ask loops capped at 4096 fills per aggressor", "one order that must fill more than 4096 resting orders"),
 "C02": ("level arrays cached on the book with a per-side pending-change marker (none / one level / many); remove_vol overwrites a pending 'one level at another price'", "levels query, then on one side a change at level p1 and a remove_vol at another level p2 with no query in between, then a levels query (a caller who looks after every operation or only at the end sees nothing)",
         "matching loops bounded by MAX_MATCHES = 64; a limit order's remainder is queued crossed", "65 or more active orders on one side and one opposite limit order or modification priced through them"),
 "C03": ("trade-volume counter summed lazily from a cursor into the log when read; reset_trade_vol does not move the cursor", "trade, no read of the counter, reset, trade, read",
         "trade records of one aggressor collected in a 16-slot batch; the record that finds the batch full is dropped", "17 or more resting orders filled by a single aggressor"),
 "C04": ("memoised level views; a pure volume reduction keeps the view and flags its side in a single slot", "a level getter, then a volume-reducing modify on a bid and one on an ask without a read in between, then look, redundant request, look",
         "a repeated cancel of a Cancelled order drops its stored queue key, which a later order may have been given", "A and B at one price and time, clock +1, cancel B, place C (gets B's old key), cancel B again"),
 "C05": ("bid_levels / ask_levels memoised behind a cheap stamp (time, counts, side volume, touch)", "a read of the levels, then two mutations at one clock value that restore the stamp (cancel v, place a created order of volume v), then a second read",
         "queue-key time packed as (time << 16) | position", "more than 65 536 consecutive queue insertions at one level while the clock does not pass the level's last key"),
 "C06": ("touch-price hint refreshed by bid_ask(), used to skip matching; the ask arm of replace_order tests the wrong tuple slot", "a look through bid_ask, then an ask that is not at the touch re-priced between the bid and the best ask, no look, then a bid at or above the new ask and below the old best ask",
         "64-slot occupancy filter over price levels (price & 63), cleared on level removal without checking collisions", "two levels on one side 64*k ticks apart, a re-price of the last order out of one of them"),
 "C07": ("level views memoised with a dirty flag (Nothing/Touch/Levels) that keeps only the first change", "read a level view, reduce or partially fill the touch order, add or remove an order at another level, snapshot and reload: original and reload differ",
         "snapshot loader rebuilds sides of 64 or more orders in bulk and never emits the last price level", "64 or more resting orders on one side at the snapshot point"),
 "C08": ("side remembers the touch (volume, count) once read; removing the only order at the touch leaves it", "a single order at the touch with a worse level behind, a read of the touch volume between steps, a later step cancelling that order",
         "'first live order' marker in the book: cancel/modify of ids below it return at once; the marker steps over an order that is still New", "at least 8 orders, a cancel that advances the marker over an order whose placement waits in the same batch, then a cancel of that order in a later step"),
 "C09": ("cached best price level in the side validated by a 16-bit revision counter", "one read of a level-1 / touch getter, then a step that ends exactly k*65536 side mutations later",
         "record columns of 4096+ capacity recycled through a thread-local pool; ask order-count columns not cleared", "an earlier simulation of more than 2048 steps on the same thread, dropped, then any simulation"),
 "C10": ("Level2DataRecords holds the current snapshot and caps the history at 65 536; the early return precedes the snapshot update", "single-asset Env living for more than 65 536 steps, then a step that changes the book",
         "bounded instruction queue (4096): when full the backlog is processed at submission time", "more than 4096 instructions submitted between two steps"),
 "C11": ("level-2 snapshot of Env/MarketEnv built lazily (OnceCell), dropped when an instruction is queued instead of when it is processed", "a read of env.level_2_data() after a batch is queued and before the step",
         "level-2 history bounded to 65 536 records while traded volumes are unbounded", "more than 65 536 steps on one environment"),
 "C12": ("Market caches its level-2 array; get_order_book_mut does not clear it", "Market::level_2_data(), a mutation through get_order_book_mut(asset), Market::level_2_data() again",
         "level queries over sides with more than 11 populated levels use one range scan with a half-open bound", "12 or more populated price levels on one side and volume resting exactly LEVELS-1 ticks from the touch"),
 "C13": ("touch memo filled by bid_ask() also during a halt; enable_trading does not drop it", "a quote read while trading is disabled, a touch-improving placement while disabled, enable, an aggressor that crosses only because of that order",
         "fills per incoming order capped at 1024", "a backlog of more than 1024 marketable resting orders built during a halt, then enable and one aggressor"),
 "C14": ("Market::level_2_data memoised with a mask of changed assets; create_and_place_order assigns the mask instead of or-ing it", "level_2_data(), a mutation on asset A, create_and_place_order on asset B, level_2_data()",
         "MarketEnv::step holds over instructions beyond step_size (shared across assets)", "a batch with more than step_size instructions"),
 "C15": ("batches holding only cancellations skip the shuffle", "a step whose queue holds two or more cancellations and nothing else",
         "after enable_trading on a crossed or locked book the next step's queue is stably sorted cancellations first", "trading off, crossing orders stepped, enable_trading, then a step mixing a cancel with new orders or modifies"),
 "C16": ("create_order rejects zero-volume orders with a new error; the agents unwrap it", "a volume range that starts at 0 and a draw landing on it",
         "noise agents rebuild their order list from this step's orders only (survivors of a cancellation round are forgotten)", "0 < p_cancel < 1 and at least three rounds: a survivor is never looked at again"),
 "C17": ("memoised touch prices in OrderBook; a resting limit order sets the memo to its own price whenever the memo is empty (also right after it was cleared)", "the touch order cancelled, then a worse-priced order resting behind another one, no read in between (one Env batch in that processing order)",
         "cap of 16*n resting limit orders per momentum group (the draw is still consumed)", "saturated demand, order ratio 1, p_cancel 0, no fills: from the 18th update on no limit orders"),
 "C18": ("Python OrderBook.get_orders() caches converted tuples and refreshes from the lowest touched id; a trading mutation overwrites the mark instead of min-ing it", "get_orders(), a mutation on a low id without a look, a trading mutation on higher ids, get_orders()",
         "Python StepEnv refuses new instructions once 65 535 are waiting for the next step", "more than 65 535 instructions submitted before one step()"),
 "C19": ("StepEnv serves both observation arrays from one lazily refreshed vector with a shared freshness stamp; level_1_data_array refreshes 9 entries but updates the stamp", "after a step level_1_data_array() is called before level_2_data_array()",
         "sides with more than 32 populated levels read their per-level data with one range scan whose window is in price units, not ticks", "more than 32 populated price levels on one side and tick size 2 or more"),
 "C20": ("both derives call env.reserve_instructions(member count), which replaces the queue (dropping what waits in it) when its capacity is too small", "a nested derived set with more members than its parent, or instructions already waiting before a derived set with 5-8 members",
         "both derives return at once when the number of waiting instructions has reached step_size", "step size small (or 1000+ instructions ahead) when a nested or top-level set starts its update"),
}
n = 0
for prop, (ca, na, cb, nb) in S.items():
    for letter, num, change, needs in (("a", 9, ca, na), ("b", 10, cb, nb)):
        sd = f"/tmp/seeds5/{prop}/{letter}"
        d = f"/verif/seeded/{prop}-{num}"
        os.makedirs(d, exist_ok=True)
        shutil.copy(f"{sd}/patch.diff", f"{d}/patch.diff")
        demo = "demo.py" if os.path.exists(f"{sd}/demo.py") else "demo.rs"
        shutil.copy(f"{sd}/{demo}", f"{d}/{demo}")
        if os.path.exists(f"{sd}/notes.md"):
            shutil.copy(f"{sd}/notes.md", f"{d}/notes.md")
        meta = {
            "property": prop, "round": 5, "change": change, "needs_to_manifest": needs, "demonstration": demo,
            "author": "independent sub-agent given the property text, the one-line descriptions of the eight earlier changes, a scratch worktree and a general description of what a bounded exhaustive search explores; asked for (9) behaviour that depends on whether/when read-only queries are called between mutations, or a change outside the property's anchors, (10) a long or very particular history (8+ operations, 4+ steps, a numeric coincidence, a counter reaching a threshold)",
            "confirmed_by_me": {
                "where": "scratch worktrees /tmp/wt/verify<n> at /repo HEAD 6080636 (removed afterwards)",
                "commands": ["tools/verify_round.sh /tmp/seeds5"],
                "suite_with_patch": "39 unit tests + 29 doc-tests pass", "demo_without_patch": "passes", "demo_with_patch": "fails",
            },
        }
        json.dump(meta, open(f"{d}/meta.json", "w"), indent=1)
        n += 1
print(n, "seeds curated")
