#!/usr/bin/env python3
"""Copies the verified round-6 seeded changes (ten properties, ordinary realistic regressions) into /verif/seeded/<Cxx-11|12>/."""
import json, os, shutil
S = {
 "C02": ("replace_order runs the matching pass only when new_price > old_price (right for bids, wrong for asks)", "an ask re-priced down to or below the best bid with trading on",
         "reduce_order_vol takes the target volume; the bid arm still passes it to remove_vol as if it were the delta", "an in-place reduction of a bid where the new volume is not exactly half the old one"),
 "C05": ("next_queue_time scans keys at or after the clock and takes the FIRST clash plus one instead of the tail plus one", "three or more insertions at one price without advancing the clock",
         "replace_order (bid branch) stores the order's key before the tie-break bump", "a bid re-queued into a level whose tail key is at/after the clock, then cancelled or filled"),
 "C07": ("snapshot loader re-indexes every order that is not closed (New orders included, with their placeholder key)", "a snapshot taken while a created-but-unplaced limit order exists",
         "Status serialised as an integer code; the decoder omits 4 (Rejected)", "a rejected market order anywhere in the history at the snapshot point"),
 "C08": ("MarketEnv::step splits the shuffled queue per asset and restarts the timestamp counter for each asset", "a batch holding instructions for at least two assets",
         "Env::cancel_order queues a cancel only if the target is Active at submission", "a place and a cancel of the same order within one step, placement processed first"),
 "C10": ("Market::level_2_data walks the levels itself with step 1 instead of one tick", "a multi-asset environment, an asset with tick size above 1, resting volume away from the touch",
         "Env keeps its own trading flag; with trading off place_order puts limit orders on the book at once", "single-asset Env with trading disabled and a limit-order submission"),
 "C12": ("the grid test in create_order merged into one check on order.price after the order is built: it now also hits market orders' sentinel prices", "a tick size not dividing 2^32-1 and a bid-side market order",
         "Market::new builds every book with the first asset's tick size", "a Market / MarketEnv with different tick sizes and an off-grid request (or a look at the levels) on a later asset"),
 "C14": ("Market::modify_order turns a restated current price into None before forwarding (keeps priority)", "a modify restating the current price, a second order behind it at that price, a partial aggressor",
         "MarketEnv::step keeps a per-asset intra-step clock through get_order_book_mut(asset).set_time", "instructions for two or more assets in one step, arrival/end/trade times observed"),
 "C16": ("momentum agents draw with rng.gen_bool(p) instead of gen::<f64>() < p", "demand > n_agents or order_ratio > 1 and a mid-price move: p > 1 panics",
         "NoiseMarketAgent::new builds the trader-id range as start..n instead of start..start+n", "a multi-asset noise agent set with a non-zero agent_id_start"),
 "C18": ("StepEnv constructor builds the env with trading on and 'applies' the mode with the branch the wrong way round", "a StepEnv constructed with trading=False, then a crossing limit order or a market order",
         "cast_order maps the status through a local function that spells out New/Active/Filled and sends everything else to 3", "a rejected order, then get_orders()"),
 "C19": ("StepEnvNumpy.level_2_data stops at the first level that is empty on both sides and zero-pads", "a level index empty on both sides with a deeper level populated",
         "bid_levels uses saturating_sub instead of wrapping_sub", "a bid touch fewer than LEVELS ticks above zero and an active bid at price 0"),
}
n = 0
for prop, (ca, na, cb, nb) in S.items():
    for letter, num, change, needs in (("a", 11, ca, na), ("b", 12, cb, nb)):
        sd = f"/tmp/seeds6/{prop}/{letter}"
        d = f"/verif/seeded/{prop}-{num}"
        os.makedirs(d, exist_ok=True)
        shutil.copy(f"{sd}/patch.diff", f"{d}/patch.diff")
        demo = "demo.py" if os.path.exists(f"{sd}/demo.py") else "demo.rs"
        shutil.copy(f"{sd}/{demo}", f"{d}/{demo}")
        if os.path.exists(f"{sd}/notes.md"):
            shutil.copy(f"{sd}/notes.md", f"{d}/notes.md")
        meta = {
            "property": prop, "round": 6, "change": change, "needs_to_manifest": needs, "demonstration": demo,
            "author": "independent sub-agent given the property text, the one-line descriptions of the ten earlier changes and a scratch worktree; asked for ordinary, realistic regressions (a refactor that loses a case, an off-by-one, a mirrored copy that drifts, a wrong field or index) that need something specific to manifest - a control round after the machinery had grown a great deal",
            "confirmed_by_me": {
                "where": "scratch worktrees /tmp/wt/verify<n> at /repo HEAD 6080636 (removed afterwards)",
                "commands": ["tools/verify_round.sh /tmp/seeds6"],
                "suite_with_patch": "39 unit tests + 29 doc-tests pass", "demo_without_patch": "passes", "demo_with_patch": "fails",
            },
        }
        json.dump(meta, open(f"{d}/meta.json", "w"), indent=1)
        n += 1
print(n, "seeds curated")
