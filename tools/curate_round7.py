#!/usr/bin/env python3
"""Copies the verified round-7 seeded changes (the ten properties round 6 left out; ordinary realistic regressions) into /verif/seeded/<Cxx-11|12>/."""
import json, os, shutil
S = {
 "C01": ("bid keys hold the real price and the bid side reads its best entry with last_key_value(): LIFO within a bid level", "two or more bids resting at one price, then a sell whose fills reveal the queue order",
         "match_orders stamps fills with the aggressor's arrival time instead of the clock", "an active order re-priced (or enlarged) into a cross after the clock has advanced: trade and end times are stale"),
 "C03": ("match_orders closes only one order per fill (the aggressor if exhausted, else the passive one)", "an aggressor whose remainder equals the resting order it hits; a later aggressor then trades volume 0 against the stale entry",
         "modify_order applies a both-field modification as two sequential steps (re-place at the old price, then move)", "a crossed book after a halt, then modify(id, Some(p), Some(v >= current)) moving away from the market: trades at a price its new limit excludes"),
 "C04": ("one 'exhausted order' check per fill (passive first, else aggressor)", "a fill that exhausts both orders: the aggressive limit order stays Active with volume 0, a market order ends Cancelled",
         "replace_order reuses the placement helper, which re-stamps arr_time", "an Active order re-priced or enlarged after the clock moved: its arrival time changes"),
 "C06": ("reduce_order_vol goes through the shared re-queue helper, whose 'if trading, re-match' step now also runs for pure reductions", "a book crossed during a halt, trading re-enabled, then a pure volume reduction of an order that reaches the opposite touch",
         "modify_order's explicit (None, None) arm lost: an empty modification re-queues the order", "modify(id, None, None) on an Active order with another order queued behind it (or on a crossed book with trading on)"),
 "C09": ("sell limit prices beyond Price::MAX are redrawn from rand::thread_rng() instead of the seeded generator", "a noise/momentum sell with a drawn distance beyond MAX - mid (empty ask side, sigma 10)",
         "sim_runner's progress-bar-off arm takes an idle-step fast path that does not reset the per-step traded volume", "a step in which no agent queues anything right after a step that traded, show_progress=false vs true"),
 "C11": ("append_record pushes the bid order count into the ask order-count series", "a step ending with different numbers of resting orders at one level index on the two sides",
         "the recorded level-2 snapshot is refreshed in place: the i-th populated level lands in slot i instead of the level i ticks from the touch", "an empty price level between the touch and a deeper populated level"),
 "C13": ("place_ask_market cancels the order outright when the bid side is empty, in front of the trading test", "trading disabled, a sell market order, no resting bids: Cancelled instead of Rejected",
         "place_order's halted-and-limit shortcut returns before the entry (with its real key) is written back", "a limit order placed during a halt with the clock not 0, later filled or re-priced after re-enabling: ghost at the head of the queue"),
 "C15": ("Env::step shuffles the time slots and zips them onto the unshuffled queue", "instructions of one step that interact (processing order is the submission order, stamps look shuffled)",
         "MarketEnv::step shuffles per asset and interleaves the assets by picking a uniformly chosen non-empty bucket", "a multi-asset step with instructions for at least two assets, one of which has two or more"),
 "C17": ("tanh rewritten as (e-1)/(e+1) with e = exp(2*scale*M)", "scale*M above ~355 in a rising market: NaN probability, no buys; the mirrored fall still sells",
         "'flat market' early exit keyed on p_limit (order_ratio * p_market) instead of p_market", "order_ratio 0: agents configured for market orders only never trade"),
 "C20": ("AgentSet derive hands members a generator wrapper whose next_u32 is the high half of next_u64", "a member that draws through next_u32 (gen::<u32/f32/bool>, gen_range over 32-bit ints, choose/shuffle)",
         "MarketAgentSet derive spreads more than four fields over helpers built with chunks_exact(4): the remainder is never updated", "a derived MarketAgentSet with 5, 6, 7, 9.. direct fields"),
}
n = 0
for prop, (ca, na, cb, nb) in S.items():
    for letter, num, change, needs in (("a", 11, ca, na), ("b", 12, cb, nb)):
        sd = f"/tmp/seeds7/{prop}/{letter}"
        d = f"/verif/seeded/{prop}-{num}"
        os.makedirs(d, exist_ok=True)
        shutil.copy(f"{sd}/patch.diff", f"{d}/patch.diff")
        demo = "demo.py" if os.path.exists(f"{sd}/demo.py") else "demo.rs"
        shutil.copy(f"{sd}/{demo}", f"{d}/{demo}")
        if os.path.exists(f"{sd}/notes.md"):
            shutil.copy(f"{sd}/notes.md", f"{d}/notes.md")
        meta = {
            "property": prop, "round": 7, "change": change, "needs_to_manifest": needs, "demonstration": demo,
            "author": "independent sub-agent given the property text, the one-line descriptions of the ten earlier changes and a scratch worktree; asked for ordinary, realistic regressions that need something specific to manifest (control round for the ten properties round 6 left out)",
            "confirmed_by_me": {
                "where": "scratch worktrees /tmp/wt/verify<n> at /repo HEAD 6080636 (removed afterwards)",
                "commands": ["tools/verify_round.sh /tmp/seeds7"],
                "suite_with_patch": "39 unit tests + 29 doc-tests pass", "demo_without_patch": "passes", "demo_with_patch": "fails",
            },
        }
        json.dump(meta, open(f"{d}/meta.json", "w"), indent=1)
        n += 1
print(n, "seeds curated")
