#!/usr/bin/env python3
"""Copies the verified round-8 seeded changes (written as pull requests: a = performance, b = feature / robustness) into /verif/seeded/<Cxx-13|14>/."""
import json, os, shutil
S = {
 "C01": ("lazy cancellation: a cancelled order that is not at the front stays in the queue as a tombstone, dropped when it reaches the front - except on the replace_order path", "cancel a non-front order, then the orders ahead of it leave, the last one through a re-queuing modify",
         "order expiry (create_order_with_expiry); ordinary orders carry the sentinel NO_EXPIRY = u64::MAX, which collides with 'expiry <= t' in place_order", "an order placed while the clock stands at exactly u64::MAX is Rejected"),
 "C02": ("per-level VecDeque queues; removal binary-searches by queue time, the snapshot loader re-inserts in id order", "a level of >= 3 orders whose queue order differs from id order, a reload, then a cancel of a non-front order: count stays one too high",
         "enable_trading un-crosses the book by matching the later-queued touch order in place", "after a halt the last-queued touch order overlaps the other side with more volume than it crosses: level and side totals keep its full volume"),
 "C03": ("orders matched in place through split_at_mut assuming the aggressor has the larger id", "an aggressor with a smaller id than the resting order it hits (created early and placed late, or a modify that trades): trade record with roles reversed",
         "an unfilled market order's remainder is zeroed together with the status", "a market order larger than the opposite side, or placed while trading is off: volume lost that no trade accounts for"),
 "C04": ("whole-level sweep fast path (split_off) that never marks the aggressor Filled", "two or more resting orders at one price and an aggressor whose remainder equals the level total",
         "cancel_order also acts on New orders ('a cancel that overtakes its placement')", "create, cancel, place: New -> Cancelled with an end time; cancelling a non-active order is no longer a no-op"),
 "C05": ("next_queue_time fast path: a free (price, now) slot is taken with one lookup", "ties running ahead of the clock, the order keyed at the clock value leaves, another joins at the same clock value: it jumps the queue",
         "OrderBook::set_time ignores attempts to move the clock backwards", "an Env/MarketEnv step with at least step_size + 2 instructions: the step no longer ends on its boundary"),
 "C06": ("replace_order keeps the price level when re-queuing; the vacated level is released only if the order was not fully filled", "an order alone on the best level re-priced through the touch and completely filled: touch volume and count read (0, 0)",
         "modify_order maps a new_price equal to the current price to None", "a modify restating the current price with another order queued behind: the seat is kept"),
 "C07": ("first_resting watermark saved in the snapshot; the loader rebuilds the indexes from orders[first_resting..]", "an order created and left unplaced while a later order is placed/cancelled/modified, then placed and resting at the snapshot point",
         "richer load_json error messages: excerpt computed with err.column() - 1", "a pretty snapshot cut exactly after a newline: panic instead of Err"),
 "C08": ("match loops return the traded volume and the callers add it to trade_vol; replace_order drops the returned value", "a modify that crosses: trades logged but missing from the per-step traded volume",
         "per-step rejected counts; the branch that tallies a rejected order skips the timestamp increment", "trading off, a market order in the batch and another instruction scheduled after it: two instructions share a stamp"),
 "C09": ("MarketEnv::step processes each asset's queue on its own thread, stamps from a shared atomic counter, for batches of >= 16384 instructions", "a multi-asset step with >= 16384 instructions for at least two assets: time stamps depend on thread interleaving",
         "RANDOM_SEED = u64::MAX: the runners draw a fresh OS-entropy seed for that value", "a run with seed exactly u64::MAX"),
 "C10": ("Env::step rebuilds the level-2 snapshot only if an instruction acted inside the visible window; the ask half of the window test is end-exclusive", "a no-trade step whose instructions all act on the deepest visible ask level or deeper",
         "the snapshot's empty-side ask price is moved from 2^32-1 onto the highest grid price", "a tick size not dividing 2^32-1 and an empty ask side when the snapshot is taken"),
 "C11": ("level-2 snapshot refreshed in place; the level walk stops once the side's total is accounted for and leaves deeper slots stale", "a side that becomes shallower but stays non-empty",
         "enable_trading un-crosses the book (new public uncross()); step() resets trade_vol first", "crossing orders queued during a halt, enable_trading between two steps: auction trades missing from get_trade_vols"),
 "C12": ("grid test memoises the last price TESTED (not the last accepted)", "two consecutive requests with the same off-grid price: the second is accepted",
         "environments refuse market orders up-front while trading is disabled (new OrderError::NoTrading)", "a market order submitted through Env/MarketEnv during a halt"),
 "C14": ("lazy market clock: set_time writes book 0 only, other books are brought up to date when addressed - except by create_order", "an order created on an asset other than 0 after the clock moved: stale arrival time while New",
         "Market::set_time ignores times earlier than the current one", "Market::set_time backwards, or a MarketEnv step whose batch has at least step_size + 2 instructions"),
 "C15": ("MarketEnv keeps new-order instructions in a separate queue, shuffles both and interleaves them with the fixed probability n_new/n_total", "a MarketEnv step mixing new orders with cancels/modifies, >= 3 instructions, split other than 1+1: non-uniform order",
         "cancel latency option: gen_bool(p) drawn per cancellation before the shuffle, also for p = 0", "a batch containing a cancellation: the permutation depends on the batch content"),
 "C16": ("agents skip a market order when the opposite side has no volume", "an empty side of the book at update time and p_market >= 1",
         "Status::PartFilled for orders left with volume after a trade; the agents still test == Status::Active", "a partial fill of an agent's resting order, then the next update: second live order of a random agent, part-filled orders never cancelled"),
 "C17": ("tanh inlined as (exp(2x)-1)/(exp(2x)+1)", "scale*M above ~355 in a rising market",
         "limit prices sampled outside (0, 2^32-1) are dropped instead of clamped", "order_ratio > 0 and a heavy-tailed price distribution (sigma 10): a saturated group no longer places one limit order per trader"),
 "C18": ("idle-step fast path for the Python environments that does not reset the traded volume", "a step that trades followed by a step with no instruction, trade_vol read in between",
         "Python modify_order(new_vol=0) treated as a cancellation", "modify with new_vol exactly 0 on an Active order"),
 "C19": ("trade_vol accumulated once in place_order; modify_order's matching no longer counted", "an order re-priced through the touch in a later step: index 0 of the arrays and the trade_vol series under-report", None, None),
 "C20": ("both derives skip members whose size_of_val is 0", "a zero-sized member (unit struct) whose update draws or places orders",
         "draw accounting: members get the generator wrapped in DrawCounter whose next_u32 is next_u64() as u32", "a generator whose next_u32 is not the low half of next_u64 and a member drawing 32 bits"),
}
n = 0
for prop, (ca, na, cb, nb) in S.items():
    for letter, num, change, needs in (("a", 13, ca, na), ("b", 14, cb, nb)):
        if change is None:
            continue
        sd = f"/tmp/seeds8/{prop}/{letter}"
        d = f"/verif/seeded/{prop}-{num}"
        os.makedirs(d, exist_ok=True)
        shutil.copy(f"{sd}/patch.diff", f"{d}/patch.diff")
        demo = "demo.py" if os.path.exists(f"{sd}/demo.py") else "demo.rs"
        shutil.copy(f"{sd}/{demo}", f"{d}/{demo}")
        if os.path.exists(f"{sd}/notes.md"):
            shutil.copy(f"{sd}/notes.md", f"{d}/notes.md")
        meta = {
            "property": prop, "round": 8, "change": change, "needs_to_manifest": needs, "demonstration": demo,
            "author": "independent sub-agent (working directory outside /verif) given the property text, the one-line descriptions of the twelve earlier changes and a scratch worktree; asked to write the change as a pull request: a = a performance PR (cache, fast path, incremental aggregate, compact encoding ...), b = a feature or robustness PR with a side effect on existing behaviour",
            "confirmed_by_me": {
                "where": "scratch worktrees /tmp/wt/verify<n> at /repo HEAD 6080636 (removed afterwards)",
                "commands": ["tools/verify_round.sh /tmp/seeds8"],
                "suite_with_patch": "39 unit tests + 29 doc-tests pass (plus a unit/doc test of its own where the pull request adds one)", "demo_without_patch": "passes", "demo_with_patch": "fails",
            },
        }
        json.dump(meta, open(f"{d}/meta.json", "w"), indent=1)
        n += 1
print(n, "seeds curated")
