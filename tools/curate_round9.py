#!/usr/bin/env python3
"""Copies the verified round-9 seeded changes (a = numeric / type family, b = container / ordering / iteration family) into /verif/seeded/."""
import json, os, shutil, glob, re
S = {
 "C01": ("level keys become tick indices (price / tick) everywhere except in replace_order", "tick > 1 and a re-queuing modify",
         "per-price VecDeque queues; remove_order uses swap_remove_front(i)", "three or more orders at one price, a cancel or re-queue of one with two or more ahead of it, then an aggressor"),
 "C02": ("level walks use saturating arithmetic and clamp to the last restable price", "a bid resting at exactly one tick (or an ask at the highest grid price) with the touch fewer than LEVELS ticks away: deeper slots repeat it",
         "snapshot loader builds the sides in bulk and never flushes the last per-price group", "a reload of a book whose worst level is inside the published window (or is the touch)"),
 "C03": ("matching-path time stamps clamped to 2^63-1 through a shared stamp() helper", "a fill while the clock is beyond 2^63-1: Trade.t differs from the book time",
         "trade records inserted at partition_point on (t, active id) instead of pushed", "two aggressors trading at one book time where the second has the smaller id: the log is reordered"),
 "C04": ("the k-th fill of a sweep is stamped clock + k", "an aggressor producing at least two fills: end times of the later passive orders are off",
         "lazy cancellation: stale queue entries pruned only at the front, not on the replace_order path", "a non-front order cancelled, the orders ahead of it leave through modify_order, then a crossing order: Cancelled -> Filled"),
 "C05": ("an over-full Env step uses exactly step_size stamps with n / step_size events each (rounded down)", "a step with more instructions than time units and a count that is not a multiple of the step size: the leftover instructions are dropped",
         "MarketEnv::step zips the bounded range start..end with the queue", "a MarketEnv step with more instructions than the step size: the excess is dropped"),
 "C06": ("in-place resize of an order 'alone at its level'; the test passes the key-space price, wrong for bids", "a bid with another bid queued behind it, a modify that keeps the price (equal or larger volume): it keeps its seat",
         "modify_order split into a volume step then a price step", "a crossed book after a halt, then a modify with both a price and an equal or larger volume moving away: trades at the stale price"),
 "C07": ("end_time serialised through i64 (-1 for open orders)", "a clock at or beyond 2^63 and an order that ended there before the snapshot: reloads as never ended",
         "Market snapshot streamed as header + one document per book; the loader zips books with documents", "a multi-asset file cut exactly on a document boundary loads as Ok with empty books"),
 "C08": ("in-step time stamps and the end-of-step jump go through a u32 offset", "a step size of 2^32 time units or more",
         "after the shuffle events are paired with their slots and cancellations stable-sorted to the front", "a batch with a cancellation of a resting order and an aggressor that would trade with it, the aggressor drawn first"),
 "C09": ("the progress-bar arm of the runners iterates 0..n_steps.max(1)", "n_steps = 0 with the progress bar on vs off",
         "derive macros group fields by type in a HashMap and emit the calls in into_values() order", "a set with two or more agent types, compared across macro expansions (identical declarations, or the hand-written expansion)"),
 "C10": ("step records its data when the per-event clock first exceeds start + step_size; later events are still applied", "a step carrying at least step_size + 2 instructions where a late event changes the visible book",
         "MarketEnv::step skips never-used books when recording and zips filtered indices with unfiltered arrays", "a lower-numbered asset that never received an order while a higher-numbered one has"),
 "C11": (None, None,
         "MarketEnv::step records only assets addressed this step; the active list is dedup()-ed without sorting", "a batch that interleaves assets in the queue (0, 1, 0, 1): an asset is recorded twice"),
 "C12": ("grid test written with checked_next_multiple_of(tick).unwrap_or(price)", "tick > 1 and an off-grid price above the highest multiple of the tick that fits in 32 bits",
         "level walk along the grid stops before reading the last level on the price axis", "an order resting on the grid price at the very end of the axis within LEVELS ticks of the touch"),
 "C13": ("volume-only modify tests v <= vol", "a book crossed during a halt, trading re-enabled, a volume-only modify restating the remaining volume: no trade",
         "the step loops use Iterator::all and stop at the first rejected market order", "trading off, a market order in the batch processed before other instructions: they are dropped"),
 "C14": ("Market::level_2_data walks the levels itself with saturating arithmetic", "a bid at price 0 with the best bid fewer than LEVELS ticks above it (or asks at 2^32-1)", None, None),
 "C15": ("event stamps clamped to step_size - 1", "a batch with more instructions than the step has time units",
         "cancels/modifies aimed at finished orders are skipped without using a time slot", "a batch holding a cancel or modify whose target is already Filled/Cancelled/Rejected"),
 "C16": ("limit prices computed as (ticks as i64) * tick and then clamped", "tick >= 2 and a far-tail draw of the documented LogNormal(0, 10): multiply overflow aborts the simulation",
         "RandomAgents::update filters the active agents before enumerate()", "an activity rate strictly between 0 and 1: orders under the wrong trader id, several live orders per trader"),
 "C17": ("trade decision drawn with Bernoulli::new(p).map_or(false, ..)", "demand*|tanh(scale*M)|/n (or ratio times it) strictly above 1: the group goes silent",
         "decision draws generated in chunks_exact(4) per trader group and zipped with the trader ids", "a group size that is not a multiple of four"),
 "C18": ("Python place_order treats price=0 like an omitted price", "a bid placed with price=0: a market order instead of a resting limit order",
         "Python OrderBook keeps converted trade tuples, extended only in place_order", "a modify_order that trades followed by get_trades() before the next placement"),
 "C19": ("level_1_data_array / level_1_data read the last entry of the recorded histories (0 when empty)", "a level-1 array read before the first step: ask price 0 instead of 2^32-1",
         "StepEnvNumpy.get_market_data moves the histories out (mem::take)", "get_market_data called more than once on one environment"),
 "C20": ("MarketAgentSet derive returns early when N == 0 (N is the number of LEVELS, not of assets)", "a market built with LEVELS = 0",
         "shared update_calls helper zips field names with type-name spans filtered to plain paths", "a member whose type is not a plain path (macro_rules! ty fragment, reference): trailing members dropped"),
}
EXTRA = [("C15", "/tmp/seeds9/C14/b", "MarketEnv::step skips the shuffle (and its draws) when the batch holds at most one instruction per asset",
          "a multi-asset step with at most one instruction per asset (written for C14; it does not break C14 - any processing order is a valid interleaving - but it does break C15: the order no longer depends on the generator alone)")]
def nxt(prop):
    nums = [int(re.search(r'-(\d+)$', d).group(1)) for d in glob.glob(f'/verif/seeded/{prop}-*')]
    return max(nums) + 1
def put(prop, sd, change, needs):
    d = f"/verif/seeded/{prop}-{nxt(prop)}"
    os.makedirs(d)
    shutil.copy(f"{sd}/patch.diff", f"{d}/patch.diff")
    demo = "demo.py" if os.path.exists(f"{sd}/demo.py") else "demo.rs"
    shutil.copy(f"{sd}/{demo}", f"{d}/{demo}")
    if os.path.exists(f"{sd}/notes.md"):
        shutil.copy(f"{sd}/notes.md", f"{d}/notes.md")
    meta = {
        "property": prop, "round": 9, "change": change, "needs_to_manifest": needs, "demonstration": demo,
        "author": "independent sub-agent (working directory outside /verif) given the property text, the one-line descriptions of the earlier changes and a scratch worktree; asked for a = a change of the numeric / type family (widths, casts, saturating vs wrapping, rounding, off-by-one, sentinel collisions, unit mix-ups), b = a change of the container / ordering / iteration family",
        "confirmed_by_me": {
            "where": "scratch worktrees /tmp/wt/verify<n> at /repo HEAD 6080636 (removed afterwards)",
            "commands": ["tools/verify_round.sh /tmp/seeds9"],
            "suite_with_patch": "39 unit tests + 29 doc-tests pass (plus a unit test of its own where the change adds one)", "demo_without_patch": "passes", "demo_with_patch": "fails",
        },
    }
    json.dump(meta, open(f"{d}/meta.json", "w"), indent=1)
    return d
n = 0
for prop, (ca, na, cb, nb) in S.items():
    for letter, change, needs in (("a", ca, na), ("b", cb, nb)):
        if change is None:
            continue
        put(prop, f"/tmp/seeds9/{prop}/{letter}", change, needs); n += 1
for prop, sd, change, needs in EXTRA:
    print(put(prop, sd, change, needs)); n += 1
print(n, "seeds curated")
