#!/usr/bin/env python3
"""Copies verified seeded defects from /tmp/seeds into /verif/seeded/<id>/ with a meta.json."""
import json, os, shutil
S = {
 "C01-1": ("C01/cand1-ported", "C01", "queue key stamped at creation instead of placement (create_order + place_*_limit, two cooperating sites; hand-ported onto the tree with the D1 fix)", "create_order and place_order called separately with the clock advanced in between, another order placed at the same side/price meanwhile, then an aggressor taking part of the level"),
 "C01-2": ("C01/cand2", "C01", "best ask hoisted out of the buy-side matching loop (stale cached value) in match_bid", "a buy limit (or re-priced bid) that empties the best ask level with volume left while the next ask level is above its limit: it trades through its limit"),
 "C03-1": ("C03/cand1", "C03", "trade record stamped with the aggressor's arrival time instead of the book time (match_orders)", "an order rests, the clock advances, then a modify makes it cross"),
 "C03-2": ("C03/cand2", "C03", "price-only modify restores start_vol instead of the current volume", "partially fill (or reduce) a resting order, then modify its price only"),
 "C04-1": ("C04/cand1", "C04", "place_order no longer sets arr_time", "create_order, set_time, place_order: arrival time stays at creation time"),
 "C04-2": ("C04/cand2", "C04", "match_orders takes its time from the aggressor's arr_time", "matching reached through modify_order after the clock advanced: end times of filled orders are stale"),
 "C06-1": ("C06/cand1", "C06", "modify with equal volume keeps the seat (v <= vol)", "two resting orders at one price, volume-only modify of the first to exactly its current volume, partial aggressor"),
 "C06-2": ("C06/cand2-ported", "C06", "replaced order re-enters with its original arrival time as queue key (hand-ported)", "clock advances between placements; older order re-priced onto a level that already holds a younger order; partial aggressor"),
 "C07-1": ("C07/cand1", "C07", "snapshot loader rebuilds the queue keys from arr_time instead of the stored key", "order replaced via modify at a later time, snapshot+reload, then an aggressor or a cancel on that level"),
 "C07-2": ("C07/cand2", "C07", "save_json opens the file without truncating", "a snapshot written over an existing longer file (pretty then compact to the same path)"),
 "C08-1": ("C08/cand1", "C08", "Env::step skips reset_trade_vol on an empty queue", "an empty step right after a step that traded"),
 "C08-2": ("C08/cand2", "C08", "MarketEnv::step carries over one event when the batch size equals the step size (off by one)", "multi-asset env, batch size exactly equal to step size"),
 "C11-1": ("C11/cand1", "C11", "Env::step rebuilds per-level arrays only if touch price or side total changed", "a multi-instruction batch that rearranges a side keeping touch and total volume"),
 "C11-2": ("C11/cand2", "C11", "MarketEnv::step resets trade volumes only for non-empty batches but always records them", "multi-asset env: a step with a trade followed by an empty step"),
 "C14-1": ("C14/cand1", "C14", "MarketEnv::cancel_order queues the cancellation only if the order is already Active", "place and cancel of the same order in one batch"),
 "C14-2": ("C14/cand2", "C14", "MarketEnv::step resets trade volumes only when the queue is non-empty", "three steps: rest, cross, idle step"),
 "C02-1": ("C02/cand1", "C02", "replace_order (ask branch) re-queues with the pre-match volume", "a resting ask larger than a resting bid is re-priced across it and partially fills"),
 "C02-2": ("C02/cand2", "C02", "snapshot loader re-derives keys from arr_time while the stored key is kept", "re-priced order, save+load, then cancel/replace/fill of that order leaves a ghost"),
 "C05-1": ("C05/cand1", "C05", "next_queue_time range bounded by the clock instead of Nanos::MAX", "three insertions at one price without advancing the clock"),
 "C05-2": ("C05/cand2", "C05", "replace_order looks up the queue tail with the un-inverted bid price", "bid side: re-queuing modify onto a level holding an order with key time equal to the clock"),
 "C09-1": ("C09/cand1", "C09", "cancel_live_orders collects ids into a HashSet before drawing", "noise/momentum agents with >= 2 live orders and 0 < p_cancel < 1; compare repeated runs"),
 "C09-2": ("C09/cand2", "C09", "market_sim_runner progress-bar branch steps before updating", "multi-asset runner with show_progress = true and active agents"),
 "C10-1": ("C10/cand1", "C10", "MarketEnv refreshes the level-2 snapshot only for assets flagged dirty; modify_order forgets the flag", "multi-asset env: a step in which an asset receives only modify instructions"),
 "C10-2": ("C10/cand2", "C10", "create_order marks a market order Rejected at creation when trading is off", "market order submitted while trading is disabled (inspect before the step)"),
 "C12-1": ("C12/cand1", "C12", "off-grid guard of modify_order only on the (price, volume) arm", "tick > 1, price-only modify to an off-grid price"),
 "C12-2": ("C12/cand2", "C12", "create_order uses a bit mask instead of modulo for the grid test", "tick size that is not a power of two"),
 "C13-1": ("C13/cand1", "C13", "replace_order guards matching by the trading flag only on the bid arm", "trading off, resting bid and ask, re-pricing modify of the ask across the bid"),
 "C13-2": ("C13/cand2", "C13", "place_bid_limit skips matching for bids not improving the touch", "book left crossed while trading was off, re-enabled, then a bid between best ask and best bid arrives"),
 "C15-1": ("C15/cand1", "C15", "MarketEnv::step stable-sorts the shuffled queue by asset", "multi-asset env with instructions for >= 2 assets in one step"),
 "C15-2": ("C15/cand2", "C15", "Env::step replaces the library shuffle by a Fisher-Yates driven by a single u64", "large batches (> 20 instructions) in a single-asset env"),
 "C16-1": ("C16/cand1", "C16", "place_buy_limit_order_market rounds the price up", "multi-asset noise/momentum agent with a mid-price off the grid"),
 "C16-2": ("C16/cand2", "C16", "RandomAgents acts when draw <= activity_rate", "activity rate exactly 0 and a draw of exactly 0.0 (needs a scripted generator)"),
 "C17-1": ("C17/cand1", "C17", "MomentumAgent takes an integer midpoint from the cached level-2 snapshot", "half-tick mid-prices (odd spread)"),
 "C17-2": ("C17/cand2", "C17", "MomentumMarketAgent stores the last price move instead of M", "decay < 1 and >= 3 observed prices where the last move opposes the accumulated momentum"),
 "C18-1": ("C18/cand1", "C18", "StepEnv.modify_order returns early when both arguments are None", "a no-op modify queued together with other instructions"),
 "C18-2": ("C18/cand2", "C18", "OrderBook.modify_order drops new_price when it equals the current price", "two resting orders at one price, modify of the first with its own price, partial aggressor"),
 "C19-1": ("C19/cand1", "C19", "StepEnvNumpy.level_2_data fills only 9 of 10 levels", "resting volume exactly 9 ticks behind the touch"),
 "C19-2": ("C19/cand2", "C19", "StepEnv.get_market_data binds n_ask_<N> to the bid-side counts", "bid and ask order counts differing at the same level offset"),
 "C20-1": ("C20/cand1", "C20", "AgentSet derive emits update calls bucketed by field type", ">= 3 fields with a non-adjacent repeated type"),
 "C20-2": ("C20/cand2", "C20", "MarketAgentSet derive emits calls in reverse declaration order", ">= 2 fields whose updates do not commute"),
}
for name, (src, prop, what, needs) in S.items():
    d = f"/verif/seeded/{name}"
    os.makedirs(d, exist_ok=True)
    sd = f"/tmp/seeds/{src}"
    shutil.copy(f"{sd}/patch.diff", f"{d}/patch.diff")
    demo = "demo.py" if os.path.exists(f"{sd}/demo.py") else "demo.rs"
    shutil.copy(f"{sd}/{demo}", f"{d}/{demo}")
    if os.path.exists(f"{sd}/notes.md"):
        shutil.copy(f"{sd}/notes.md", f"{d}/notes.md")
    meta = {
        "property": prop, "change": what, "needs_to_manifest": needs, "demonstration": demo,
        "author": "independent sub-agent given only the property text and a scratch worktree",
        "confirmed_by_me": {
            "where": "scratch worktree /tmp/wt/verify at /repo HEAD (removed afterwards)",
            "commands": ["tools/verify_seed.sh <dir>" if demo == "demo.rs" else "tools/verify_seed_py.sh <dir>"],
            "suite_with_patch": "39 unit tests + 29 doc-tests pass", "demo_without_patch": "passes", "demo_with_patch": "fails",
        },
    }
    json.dump(meta, open(f"{d}/meta.json", "w"), indent=1)
print(len(S), "seeds curated")
