#!/usr/bin/env python3
"""Regenerates /verif/MANIFEST.json (kept in one place so that it stays valid and consistent)."""
import json

BUILT = {
 "C01": dict(cat="model_checking", engine="seqx+absx", ref="§3 C01",
   tech="explicit enumeration of all operation sequences to a depth bound on the real OrderBook, each step compared with a reference matching engine + drain probe",
   text="Every history up to the stated depth over the stated alphabets (limit/market both sides x 3 prices x 2 volumes, cancels of every id, separate create/place, event route, re-pricing and re-sizing modifications directly and as process_event(Modify), clock advance {0,+1} under the clock discipline, ticks 1..10, LEVELS 1..24, 4 scripted non-initial start states) is executed on a fresh real OrderBook; after every operation the full observable snapshot must equal the reference engine's and sweeping the book must execute the same (passive id, price, volume) sequence. Exhaustive within the bound, no sampling. Also: large magnitudes (clock beyond 2^40, prices around 2^31 incl. the complementary pair 2147483647/2147483648, volumes 70000, 2e9, 3e9, filtered by the validity clause), the highest grid prices for ticks 2 and 10, start states with 15-order queues and several hundred earlier orders, coinciding values (price = volume = id = trader id).",
   note="Trusted: the harness's reference engine (refmodel.rs) as the definition of price-time priority; behaviour for prices/volumes outside the small alphabet is assumed uniform (no magnitude-dependent control flow below 2^32)."),
 "C02": dict(cat="model_checking", engine="seqx", ref="§3 C02",
   tech="exhaustive bounded-depth enumeration of operation sequences; every published view recomputed from get_orders() after every operation; tick x LEVELS configuration sweep",
   text="All histories to the stated depth (placements, cancels, modifies, toggles, reload; also separate create/place with every request aimed at unplaced orders) at ticks 1..10 x LEVELS 1..24 plus price bands at both ends of the price axis and deep 12-level ladders; after every operation each view is recomputed from get_orders() alone and all views must agree; never crossed unless trading was disabled. Also: large magnitudes (times, prices around 2^31, volumes up to 3e9), long-queue and hundreds-of-orders start states.",
   note="Trusted: get_orders() statuses/prices/volumes (they are what the recomputation is based on; C01/C04 check those)."),
 "C03": dict(cat="model_checking", engine="seqx", ref="§3 C03",
   tech="exhaustive bounded-depth enumeration; ledger audit (append-only, per-trade legality, per-order conservation, counter) after every operation",
   text="All histories to the stated depth including modifies that trade, toggles and counter resets; after each operation the trade log is audited against get_orders() and against the volumes the harness itself submitted. Also: large magnitudes, counter windows whose lifetime volume passes 2^32, coinciding values, long-queue and hundreds-of-orders start states.",
   note="Trusted: nothing but the harness's own bookkeeping of the requests it issued."),
 "C04": dict(cat="model_checking", engine="seqx+absx", ref="§3 C04",
   tech="exhaustive bounded-depth enumeration with place/cancel/modify offered on every id in every status; per-order transition-graph check and full-snapshot equality around redundant requests",
   text="All histories to the stated depth where place, cancel and modify are offered for every id whatever its status and set_time is an operation, with the clock advanced before every operation and (C04 has no clock-discipline clause) with clock advance {0,+1} everywhere; an explicit-state closure retries redundant requests against every dead class in every reachable abstract book; every order's status transition, immutables, arrival and end time are checked on every step and redundant requests must leave the full snapshot unchanged. Also: large magnitudes incl. set_time by 2^33, a deep one-price plan with snapshot reload as an operation, coinciding values, long-queue and hundreds-of-orders start states.",
   note="Trusted: nothing beyond the public getters."),
 "C05": dict(cat="model_checking", engine="seqx+absx+envx", ref="§3 C05",
   tech="exhaustive bounded-depth enumeration with clock advance {0,+1} as a choice at every step (all tie patterns), reference engine with insertion-order queues + drain probe + views/ledger/lifecycle/reload monitors; environment steps with more instructions than time units over all n! schedules",
   text="Same exhaustive exploration as C01-C04/C06/C07 but every operation may happen without advancing the clock, so every pattern of equal timestamps within the depth bound is executed (also from books crossed while trading was off); the reference engine defines the expected queue order as insertion order. An explicit-state closure (stateright) with the clock advance {0,+1} in every action and clipped queue ages in the key removes the depth bound within its caps. Environment: steps carrying more instructions than the step size under all n! schedules. Also: ties at the complementary prices 2147483647/2147483648 and between bids above 2^31, to depth 6-7.",
   note="Trusted: reference engine; bounded depth."),
 "C06": dict(cat="model_checking", engine="seqx+absx", ref="§3 C06",
   tech="exhaustive bounded-depth enumeration with modify(price in {-,each grid price}, volume in {-,1..4}) on every id in every status; reference engine + drain probe after every step",
   text="Every modify request shape on every order in every status at every point of every history to the stated depth; the drain probe exposes the queue seat right after the modify. Also: large magnitudes (reductions by more than 2^31, side volumes near 2^32), long-queue and hundreds-of-orders start states.",
   note="Trusted: reference engine encodes 'only a pure reduction keeps the seat'."),
 "C08": dict(cat="model_checking", engine="envx", ref="§3 C08",
   tech="exhaustive enumeration of environment scenarios (submissions x toggles x steps) with every shuffle outcome forced through a scripted RngCore (all n! index scripts); candidate-schedule oracle: some permutation replayed on plain OrderBooks + reference engine at times start+i must reproduce the step",
   text="Every scenario within the bounds (total submissions, steps, toggles; Env<3>, Env<10>, MarketEnv<2,3>; step size equal to the batch size and large; from empty and pre-populated books) is run on a fresh real environment under every one of the n! index scripts of the shuffle. After each step the set of permutations whose replay on stand-alone books reproduces exactly the observed orders, trades, views and time must be non-empty; clock, per-step traded volume and queue emptiness (an extra empty step) are checked directly. Also: more assets than levels (MarketEnv<3,2>, <2,1>, <4,3>), volumes of 1e9..3e9 with a clock beyond 2^40 (steps offered only where every schedule is valid), and batches of 6..1030 (thorough 4097) instructions whose schedule is read off the arrival stamps and replayed on stand-alone books; the environment's order(id)/order_status(id)/get_orders/get_trades must match its book in every node.",
   note="Trusted: the stand-alone OrderBook (checked by C01-C06) and the harness reference engine as replay targets; rand's mapping from generator words to indices is not trusted (the oracle is independent of it)."),
 "C10": dict(cat="model_checking", engine="envx", ref="§3 C10",
   tech="same exhaustive scenario enumeration as C08 (all schedules via scripted RngCore), observing the full environment between every two actions",
   text="Before and after every submission the complete observable state (live book, recorded histories, level-2 snapshot, env getters) is compared: only an appended New order may differ; the level-2 snapshot handed to agents must equal the live book's level-2 data after construction, every submission, toggle and step. Also: prices just below 2^32-1 (ask level walks pass the top), volumes of 1e9..3e9, clocks beyond 2^40.",
   note="Trusted: nothing beyond the public getters."),
 "C11": dict(cat="model_checking", engine="envx", ref="§3 C11",
   tech="same exhaustive scenario enumeration (all schedules), the harness reads the live book after every step and compares every recorded series entry by entry; LEVELS 1..24 sweep",
   text="After step j the harness reads the live book; after k steps every series (touch prices, side volumes, 4 x LEVELS per-level series, touch getters, per-step traded volume) must have exactly k entries and entry j must equal the value read at step j, bid against bid; traded volume j must equal the log's volume stamped within step j. Also: prices just below 2^32-1, one published level (MarketEnv<2,1>), volumes of 1e9..3e9 with step size 2^33.",
   note="Trusted: live getters of the book (C02)."),
 "C14": dict(cat="model_checking", engine="marketx+envx", ref="§3 C14",
   tech="exhaustive bounded-depth enumeration of interleaved per-asset operations on Market<1..4> against lock-step stand-alone OrderBooks; MarketEnv scenarios under all n! schedules with the per-asset candidate-schedule oracle",
   text="Market<A> (A=1..4, distinct ticks): every interleaving of per-asset operations (incl. zero-volume requests and per-asset toggles through get_order_book_mut) to the stated depth; each asset must equal a stand-alone real OrderBook fed only its own operations at the same times, every all-asset query must be the array of the stand-alone values, other assets must be untouched. MarketEnv<1..4>: C08's oracle per asset with instructions spread over assets and every order of the shared queue. Also: markets of 12 assets, batches of 12..257 (thorough 1025) instructions over 2-4 assets replayed on stand-alone books in stamp order, C10's and C11's clauses on MarketEnv from three-level books.",
   note="Trusted: the single-asset OrderBook (C01-C06)."),
 "C15": dict(cat="model_checking", engine="scriptrng+envx", ref="§3 C15",
   tech="exhaustive enumeration of the shuffle's decision space through a scripted RngCore: all n! index scripts (n<=7 quick, 8 thorough) must map bijectively onto S_n and coincide with the library shuffle of the submission order; deviation-bounded scripts (<=2 non-zero answers) up to n=64; every batch content word over {limit, market, cancel, modify} x assets under every script",
   text="Exact replacement for the statistical test: through the real Env::step / MarketEnv::step with a generator whose every answer is scripted. (a) all index scripts for n=2..7: script -> processing order is a bijection onto S_n, equal to rand's own shuffle of the submission order, with exactly n-1 draws; (b) n up to 64 with <=2 non-zero answers: equal to the library shuffle, all distinct, every item reaches the pivot position by the first draw alone; (c) the order is the same function of the script for every batch content (kinds, assets, submission order); (d) same script twice -> same order; (e) the whole decision repeated under other environment configurations: step sizes 1, n-1, n (batch larger than the step) and trading off at construction or switched off later. If the implementation stops being a product of independent bounded draws the check degrades to necessary conditions (determinism, content independence, an information-theoretic bound on consumed generator bits) and says so. Also: every pair of index scripts on two consecutive steps (n <= 4, thorough 5) and environments living for 9100 (thorough 17500) instructions, each step compared with the library shuffle under that step's answers alone.",
   note="Trusted base: rand's bounded uniform draws are uniform and independent given a uniform generator. The property's own sampling test is not used."),
 "C16": dict(cat="model_checking", engine="agentsx", ref="§3 C16",
   tech="exhaustive enumeration of a configuration grid (agent type x tick 1..10 x probabilities x sigma x traders x start book x single/multi asset) crossed with deviation-bounded scripted generator answers (default stream + every placement of <=2 extreme answers in the first N draws of each update, 3 rounds); plus a bounded enumeration of seeds",
   text="Each agent group is updated alone, in an environment that also holds foreign orders (7 start books incl. both ends of the price axis), under a scripted RngCore: the default stream plus every placement of up to two extreme words (0, all-ones, threshold-adjacent) among the first N draws of an update, in each of three consecutive update+step rounds, over the full configuration grid. Orders submitted during update and cancellations taking effect in the following step are judged against the statement (grid, range / side of observed mid, volume, trader ids, own active orders only, one live order per random agent, probability 0 never / >=1 always, no abort). Long default-stream runs over seeds 0..15 are a bounded enumeration of seeds and are labelled as such. Also: tick ranges reaching both ends of the price axis, populations of 300, 65535, 65536 and 70000 agents, the momentum agents' documented activity rule with M recomputed from observed mid-prices (decay 0.5, ratio 0.5, a flat fourth round).",
   note="Deviation bound 2 and N scripted draws per update; seeds are an unbounded domain (enumerated 0..15 only)."),
 "C17": dict(cat="model_checking", engine="agentsx/c17", ref="§3 C17",
   tech="exhaustive enumeration of all mid-price paths with moves in {-2..2} ticks up to a length bound (harness re-quotes a deep market), crossed with parameter grid and scripted per-trader decision draws; oracle recomputes M; mirrored-run differential",
   text="The harness imposes every mid-price path over moves {-2,-1,0,+1,+2} ticks up to the stated length and scripts the generator of the judged update (default, all-zero, all-ones, mid, and with order ratio 0 every combination of {0, p-eps, p+eps, 1-eps} per trader). M is recomputed from observed mids; at saturation (order ratios 0, 0.5, 1) exactly one market (and limit) order per trader on the side of sign(M), nothing at M = 0, action iff draw < |p| otherwise; the same script on the mirrored path must give the mirrored order flow. Also: mid-prices around 2e7 (beyond 2^24) with one-tick moves and with moves of 1.2 and 3 million ticks.",
   note="Trusted: the documented recurrence for M; lognormal price offsets are only checked through the mirror differential."),
 "C09": dict(cat="model_checking", engine="c09 + scriptrng", ref="§3 C09, §10.9",
   tech="controlled-generator exploration of the real simulator: every generator stream within a deviation bound (default stream with <=d extreme answers among the first N draws of a round, all 14 agent compositions) executed twice in-process and once in a fresh OS process, outputs bit-compared; exhaustive run-length sweep (every step count 0..N, both progress-bar branches of the library runners vs the hand-written loop); plus the seed x parameter grid crossed with every enumerated nondeterminism dimension (repeat, 3 child processes, record / play-back of the generator words)",
   text="The simulator is generic over RngCore, so 'seed' is replaced by 'generator stream' and the stream is owned by the harness. (a) For all 14 derive-macro agent compositions (single- and two-asset, ticks 1,2) and each of 4 rounds, every stream that departs from the default stream in at most d answers (extreme words: 0, all-ones, sign- and threshold-adjacent) among the first N draws of that round is run three times (twice here, once in a fresh process with new ASLR layout and hasher keys); complete outputs (orders, trades, level-2 history, per-step volumes, clock) must be bit-identical. (b) Every run length 0..=130 (thorough 300, plus neighbours of 256..2048): library runner in a fresh process with the progress bar off and on must equal the hand-written update/step loop. (c) A finite seed x steps x tick x step-size grid is crossed with seven drivers per point (runner twice, three child processes off/on/off, recording generator, play-back of the recorded words); all digests agree, play-back consumes exactly the recorded words, distinct seeds give distinct outputs.",
   note="Bounded: deviation bound d (1 quick / 2 thorough) over N (16 / 12) scripted draws per round; seeds in part (c) are a finite list (0..1 quick, 0..7 thorough) - that part alone would be 'exploration'. This check is also the uncontrolled-nondeterminism gate the other checks rely on."),
 "C18": dict(cat="model_checking", engine="pytrace + py/driver.py", ref="§3 C18",
   tech="exhaustive bounded-depth enumeration of Python call sequences (OrderBook and StepEnv, incl. off-grid prices and out-of-range integers) generated by the Rust side with expected values from the Rust crates; every trace replayed on the freshly built extension under CPython; snapshot exchange both ways",
   text="Every call sequence to the stated depth over the Python API (place limit/market on- and off-grid, cancel, modify incl. no-op and zero-volume, set_time, toggles, step, out-of-range integers; step sizes 100, 1 and 0; every getter called between any two calls) is executed on the real compiled extension under CPython 3.11; the return value or exception of the last call and every getter afterwards must equal what the Rust core gives for the same sequence (sides True = bid, statuses 0..4); failing calls must leave the object unchanged; StepEnv traces are replayed twice (determinism in the seed); snapshots of all states of depth <= 3 are exchanged Python->Rust and Rust->Python and the loaded books are swept on both sides. Also: scripted traces with tick sizes 1..2^32-1 (incl. 65535, 65536, 4.5e8, 2^31), start times 2^40, step sizes 1 and 2^33, volumes of 2e9..4e9, limit prices 0 and 2^32-1.",
   note="One interpreter (python3-vt: CPython 3.11.7, numpy 2.4.6); the extension is imported directly as module `core`."),
 "C19": dict(cat="model_checking", engine="pytrace + py/driver.py", ref="§3 C19",
   tech="for every environment state reached by exhaustively enumerated StepEnv call traces (and the same instructions through StepEnvNumpy), all four array methods, both get_market_data dictionaries and both data-frame helpers are compared element by element with the documented index tables",
   text="Dynamic check (numpy is available in the tooling venv): every state reached by the enumerated traces - overwhelmingly asymmetric books, incl. idle steps and books whose resting orders have zero volume - is observed through StepEnv.level_1_data_array / level_2_data_array, StepEnvNumpy.level_1_data / level_2_data, both get_market_data dictionaries and trades_to_dataframe / orders_to_dataframe; element k must be the documented quantity, lengths 9 and 45, keys exactly the 45 documented names bound to the matching series, columns named after the fields. The documented quantities are recomputed in the driver from the order list alone (independent of the core's level functions); also 70000 orders on one level and volumes of 1e9 through StepEnvNumpy, limit prices 0 and 2^32-1.",
   note="The documented tables are transcribed once into py/driver.py; pandas is replaced by a minimal stand-in (not installed offline)."),
 "C20": dict(cat="model_checking", engine="c20 (build.rs generated programs)", ref="§3 C20",
   tech="exhaustive enumeration of struct shapes (all field-kind words of length 1..4 over {probe A, probe B, nested derived set} + 14 shapes of 5..8 fields, both derive macros), each compiled into the harness and compared call-by-call and draw-by-draw with the flattened hand-written sequence",
   text="Struct shapes: every field-kind word of length 1..4 (+14 long ones) plainly written, and every word of length 1..3 (+2 long ones) re-declared with six syntactic decorations (field attributes, struct attributes, visibilities, type paths/parentheses, raw identifiers, macro_rules! template with `ty` fragments). For each generated struct the derived update and the hand-written self.f0.update(env, rng); ... (nested sets flattened) are run on fresh environments with the same seed, twice with a step in between; the probe log (field tag, fingerprint of the environment it was handed, first draw), the final orders and the next generator word must be identical. Field names that are unsorted, underscore-prefixed, upper-case or non-ASCII are among the decorations.",
   note="Programs are limited to named-field structs built from the two probe types and a nested derived set; 1..8 fields."),
 "C12": dict(cat="model_checking", engine="seqx+envx", ref="§3 C12",
   tech="exhaustive bounded-depth enumeration with on- and off-grid prices offered to create, create_and_place and modify at every point of every history; grid monitor",
   text="Ticks 2,3,5,10 with off-grid neighbours of grid prices and the largest representable price (where it is off the grid) offered to every creating and modifying entry point at every point of every history to the stated depth; in the environments, the level data they publish after every step must account for the resting orders; rejected creations must leave the snapshot untouched; every resting price on the grid; published levels account for all resting volume in range. Also: limit prices 0 and 2^32-1 where they are on the grid (book, Env, MarketEnv).",
   note="Trusted: nothing beyond the public getters."),
 "C07": dict(cat="model_checking", engine="seqx+marketx", ref="§3 C07",
   tech="exhaustive bounded-depth enumeration with reload (in-memory / compact file / pretty file) as an operation, model-free differential against the never-reloaded run + sweep; every truncation offset of every snapshot file of a bounded state set",
   text="(a) reload is an operation of the alphabet, so it lands at every point of every history to the stated depth (book LEVELS 1,2,3,10,24; Market<2>,<3> against never-reloaded shadow books; tick sizes 1,2,3,7,10 with unplaced limit and market orders present at the snapshot point); the run h.reload.c must be indistinguishable from h.c on the same real code, step by step and when swept. (b) for every history of length <= d, both formats, the file cut at every byte offset must be rejected with an error. Also: counter resets before the snapshot, clocks beyond 2^53 and volumes up to 3e9 through the JSON round trip, the complementary price pair with equal timestamps, 6000-order books (files beyond 1 MiB), a deep one-price plan where queue order differs from id order, markets of 12 and 25 assets.",
   note="Trusted: nothing beyond the public getters; torn writes other than truncation are outside the statement."),
 "C13": dict(cat="model_checking", engine="seqx+absx+marketx+envx", ref="§3 C13",
   tech="exhaustive bounded-depth enumeration with enable/disable as operations at every point; reference engine + direct no-trade clauses + drain probe",
   text="Trading toggles land at every point of every history to the stated depth (both start states; book, Market<2>,<3> with market-wide and per-asset toggles against stand-alone books, Env and MarketEnv); trade log constant while off, market orders rejected without touching the book, toggles are no-ops, matching after re-enabling equals the reference engine's. Also: the two highest grid prices for ticks 2 and 10, large magnitudes.",
   note="Trusted: reference engine."),
}

NOT_YET = {
}

def main():
    props = [json.loads(l) for l in open('/verif/properties.jsonl')]
    checks = []
    na = []
    for p in props:
        i = p['id']
        if i in BUILT:
            b = BUILT[i]
            checks.append({
                "property_id": i,
                "quick_cmd": f"./check {i} quick",
                "thorough_cmd": f"./check {i} thorough",
                "evidence_file": f"/verif/evidence/{i}.json",
                "replay_cmd_template": "./check replay {path}",
                "engine": b["engine"],
                "level_claimed": {"category": b["cat"], "text": b["text"], "design_ref": b["ref"]},
                "level_note": b["note"],
                "technique": b["tech"],
            })
        else:
            na.append({"property_id": i, "reason": NOT_YET.get(i, "check not built yet in this commit (work in progress; see DESIGN.md §3 for the planned model-checking approach)")})
    m = {
        "version": 1,
        "setup_cmd": "./check setup",
        "hooks": {
            "guard": "bourse_verif",
            "enable": "unused - every check drives the public API of the crates in /repo (path dependencies of /verif/harness), no source hooks",
            "baseline_off_cmd": "cd /repo && cargo test --workspace --no-fail-fast --offline",
            "source_commits": [],
            "add_only": True,
        },
        "engines": [
            {"name": "seqx", "path": "/verif/harness/src/seqx.rs", "serves_properties": ["C01","C02","C03","C04","C05","C06","C07","C12","C13"],
             "kind_free_text": "stateless exhaustive DFS over operation sequences on fresh real OrderBook objects (replay from root per node), reference model and monitors judged after every operation"},
            {"name": "absx", "path": "/verif/harness/src/absx.rs", "serves_properties": ["C01","C04","C05","C06","C13"],
             "kind_free_text": "stateright explicit-state closure over abstract live-book keys; every transition replays a representative history on a fresh real OrderBook and is judged; re-swept with different representatives"},
            {"name": "envx", "path": "/verif/harness/src/envx.rs", "serves_properties": ["C05","C08","C10","C11","C12","C13","C14"],
             "kind_free_text": "exhaustive Env / MarketEnv scenario exploration with the shuffle owned by a scripted RngCore (all n! index scripts), candidate-schedule oracle"},
            {"name": "marketx", "path": "/verif/harness/src/marketx.rs", "serves_properties": ["C07","C13","C14"],
             "kind_free_text": "exhaustive interleavings on Market<A,L> against lock-step stand-alone OrderBooks"},
            {"name": "scriptrng", "path": "/verif/harness/src/scriptrng.rs", "serves_properties": ["C08","C09","C15","C16","C17"],
             "kind_free_text": "RngCore whose every answer is a scripted choice point (the controlled scheduler); deviation-bounded enumeration of answer streams"},
            {"name": "pytrace", "path": "/verif/harness/src/pytrace.rs", "serves_properties": ["C18","C19"],
             "kind_free_text": "call traces enumerated against the Rust core and replayed by sharded CPython drivers (/verif/py/driver.py) on the freshly built extension"},
            {"name": "c20", "path": "/verif/harness/build.rs", "serves_properties": ["C20"],
             "kind_free_text": "generated derive-macro programs (struct shapes) compiled into the harness and compared with hand-written call sequences"},
        ],
        "checks": checks,
        "not_applicable": na,
        "notes": "All checks rebuild /verif/harness against /repo's working tree (path dependencies) before running. exit 2 = machinery error, never a verdict.",
    }
    json.dump(m, open('/verif/MANIFEST.json', 'w'), indent=1)
    print("checks:", len(checks), "not_applicable:", len(na))

main()
