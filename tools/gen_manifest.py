#!/usr/bin/env python3
"""Regenerates /verif/MANIFEST.json (kept in one place so that it stays valid and consistent)."""
import json

BUILT = {
 "C01": dict(cat="model_checking", engine="seqx+absx", ref="§3 C01",
   tech="explicit enumeration of all operation sequences to a depth bound on the real OrderBook, each step compared with a reference matching engine + drain probe",
   text="Every history up to the stated depth over the stated alphabets (limit/market both sides x 3 prices x 2 volumes, cancels of every id, separate create/place, event route, clock advance {0,+1} under the clock discipline, ticks 1..10, LEVELS 1..24, 4 scripted non-initial start states) is executed on a fresh real OrderBook; after every operation the full observable snapshot must equal the reference engine's and sweeping the book must execute the same (passive id, price, volume) sequence. Exhaustive within the bound, no sampling.",
   note="Trusted: the harness's reference engine (refmodel.rs) as the definition of price-time priority; behaviour for prices/volumes outside the small alphabet is assumed uniform (no magnitude-dependent control flow below 2^32)."),
 "C02": dict(cat="model_checking", engine="seqx", ref="§3 C02",
   tech="exhaustive bounded-depth enumeration of operation sequences; every published view recomputed from get_orders() after every operation; tick x LEVELS configuration sweep",
   text="All histories to the stated depth (placements, cancels, modifies, toggles, reload) at ticks 1..10 x LEVELS 1..24 plus price bands at both ends of the price axis; after every operation each view is recomputed from get_orders() alone and all views must agree; never crossed unless trading was disabled.",
   note="Trusted: get_orders() statuses/prices/volumes (they are what the recomputation is based on; C01/C04 check those)."),
 "C03": dict(cat="model_checking", engine="seqx", ref="§3 C03",
   tech="exhaustive bounded-depth enumeration; ledger audit (append-only, per-trade legality, per-order conservation, counter) after every operation",
   text="All histories to the stated depth including modifies that trade, toggles and counter resets; after each operation the trade log is audited against get_orders() and against the volumes the harness itself submitted.",
   note="Trusted: nothing but the harness's own bookkeeping of the requests it issued."),
 "C04": dict(cat="model_checking", engine="seqx", ref="§3 C04",
   tech="exhaustive bounded-depth enumeration with place/cancel/modify offered on every id in every status; per-order transition-graph check and full-snapshot equality around redundant requests",
   text="All histories to the stated depth where place, cancel and modify are offered for every id whatever its status and set_time is an operation; every order's status transition, immutables, arrival and end time are checked on every step and redundant requests must leave the full snapshot unchanged.",
   note="Trusted: nothing beyond the public getters."),
 "C05": dict(cat="model_checking", engine="seqx+envx", ref="§3 C05",
   tech="exhaustive bounded-depth enumeration with clock advance {0,+1} as a choice at every step (all tie patterns), reference engine with insertion-order queues + drain probe + views/ledger/lifecycle/reload monitors; environment steps with more instructions than time units over all n! schedules",
   text="Same exhaustive exploration as C01-C04/C06/C07 but every operation may happen without advancing the clock, so every pattern of equal timestamps within the depth bound is executed; the reference engine defines the expected queue order as insertion order.",
   note="Trusted: reference engine; bounded depth."),
 "C06": dict(cat="model_checking", engine="seqx+absx", ref="§3 C06",
   tech="exhaustive bounded-depth enumeration with modify(price in {-,each grid price}, volume in {-,1..4}) on every id in every status; reference engine + drain probe after every step",
   text="Every modify request shape on every order in every status at every point of every history to the stated depth; the drain probe exposes the queue seat right after the modify.",
   note="Trusted: reference engine encodes 'only a pure reduction keeps the seat'."),
 "C12": dict(cat="model_checking", engine="seqx+envx", ref="§3 C12",
   tech="exhaustive bounded-depth enumeration with on- and off-grid prices offered to create, create_and_place and modify at every point of every history; grid monitor",
   text="Ticks 2,3,5,10 with off-grid neighbours of grid prices offered to every creating and modifying entry point at every point of every history to the stated depth; rejected creations must leave the snapshot untouched; every resting price on the grid; published levels account for all resting volume in range.",
   note="Trusted: nothing beyond the public getters."),
 "C07": dict(cat="model_checking", engine="seqx+marketx", ref="§3 C07",
   tech="exhaustive bounded-depth enumeration with reload (in-memory / compact file / pretty file) as an operation, model-free differential against the never-reloaded run + sweep; every truncation offset of every snapshot file of a bounded state set",
   text="(a) reload is an operation of the alphabet, so it lands at every point of every history to the stated depth (book LEVELS 1,2,3,10,24; Market<2>,<3> against never-reloaded shadow books); the run h.reload.c must be indistinguishable from h.c on the same real code, step by step and when swept. (b) for every history of length <= d, both formats, the file cut at every byte offset must be rejected with an error.",
   note="Trusted: nothing beyond the public getters; torn writes other than truncation are outside the statement."),
 "C13": dict(cat="model_checking", engine="seqx+envx", ref="§3 C13",
   tech="exhaustive bounded-depth enumeration with enable/disable as operations at every point; reference engine + direct no-trade clauses + drain probe",
   text="Trading toggles land at every point of every history to the stated depth (both start states); trade log constant while off, market orders rejected without touching the book, toggles are no-ops, matching after re-enabling equals the reference engine's.",
   note="Trusted: reference engine."),
}

NOT_YET = {
}

def main():
    props = [json.loads(l) for l in open('/verif/properties.jsonl')]
    checks = []
    na = []
    for p in props:
        i = p['id']
        if i in BUILT:
            b = BUILT[i]
            checks.append({
                "property_id": i,
                "quick_cmd": f"./check {i} quick",
                "thorough_cmd": f"./check {i} thorough",
                "evidence_file": f"/verif/evidence/{i}.json",
                "replay_cmd_template": "./check replay {path}",
                "engine": b["engine"],
                "level_claimed": {"category": b["cat"], "text": b["text"], "design_ref": b["ref"]},
                "level_note": b["note"],
                "technique": b["tech"],
            })
        else:
            na.append({"property_id": i, "reason": NOT_YET.get(i, "check not built yet in this commit (work in progress; see DESIGN.md §3 for the planned model-checking approach)")})
    m = {
        "version": 1,
        "setup_cmd": "./check setup",
        "hooks": {
            "guard": "bourse_verif",
            "enable": "unused - every check drives the public API of the crates in /repo (path dependencies of /verif/harness), no source hooks",
            "baseline_off_cmd": "cd /repo && cargo test --workspace --no-fail-fast --offline",
            "source_commits": [],
            "add_only": True,
        },
        "engines": [
            {"name": "seqx", "path": "/verif/harness/src/seqx.rs", "serves_properties": ["C01","C02","C03","C04","C05","C06","C07","C12","C13"],
             "kind_free_text": "stateless exhaustive DFS over operation sequences on fresh real OrderBook objects (replay from root per node), reference model and monitors judged after every operation"},
        ],
        "checks": checks,
        "not_applicable": na,
        "notes": "All checks rebuild /verif/harness against /repo's working tree (path dependencies) before running. exit 2 = machinery error, never a verdict.",
    }
    json.dump(m, open('/verif/MANIFEST.json', 'w'), indent=1)
    print("checks:", len(checks), "not_applicable:", len(na))

main()
