#!/bin/bash
# usage: tools/round_matrix.sh <seeds-root> <out.tsv> [tier] [slots]
# Runs the quick (or given) check of property Cxx against every not-yet-curated change <root>/Cxx/{a,b}/patch.diff
# in scratch worktrees (never touches /repo). Lines: Cxx/a  exit  signatures.
root="$1"; out="$2"; tier="${3:-quick}"; slots="${4:-4}"; tmp=$(mktemp -d)
ls -d $root/C*/[ab] | while read d; do [ -s $d/patch.diff ] && echo $d; done | sort > $tmp/all
run_slot() {
  slot=$1
  awk -v s=$slot -v n=$slots 'NR%n==s' $tmp/all | while read d; do
    prop=$(basename $(dirname $d)); name=$prop/$(basename $d)
    log=$(SLOT=$slot /verif/tools/try_seed_scratch.sh $d/patch.diff $tier $prop 2>&1)
    echo "$log" > $d/matrix_$tier.log
    code=$(echo "$log" | grep -oE "exit=[0-9]+" | head -1 | cut -d= -f2)
    sigs=$(echo "$log" | grep -oE "^  \[C[0-9]+\] [^ ]+" | awk '{print $2}' | sed 's/:$//' | sort -u | tr '\n' ',' | sed 's/,$//')
    echo -e "$name\t${code:-ERR}\t$sigs" >> $tmp/res.$slot
  done
}
for s in $(seq 0 $((slots-1))); do run_slot $s & done; wait
cat $tmp/res.* | sort > $out; rm -rf $tmp
cat $out | cut -c1-260
