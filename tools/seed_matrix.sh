#!/bin/bash
# Runs every curated seeded defect against the quick check of the property it breaks.
# Applies the patch to /repo, runs, reverts. Writes /verif/seeded/RESULTS.tsv (seed, property, exit, signatures).
# NOTE: do not run other checks while this runs (it edits /repo's working tree temporarily).
out=/verif/seeded/RESULTS.tsv
: > $out
export VERIF_REPLAY_DIR=/tmp/seed-replays VERIF_EVIDENCE_DIR=/tmp/seed-evidence
cd /repo || exit 2
if [ -n "$(git status --porcelain --untracked-files=no)" ]; then echo "/repo dirty"; exit 2; fi
for d in /verif/seeded/*/; do
  name=$(basename $d); prop=$(python3 -c "import json;print(json.load(open('$d/meta.json'))['property'])")
  if ! git apply "$d/patch.diff" 2>/dev/null; then echo -e "$name\t$prop\tAPPLY-FAILED\t" >> $out; continue; fi
  log=$(cd /verif && ./check $prop ${1:-quick} 2>&1); code=$?
  git checkout HEAD -- .
  sigs=$(echo "$log" | grep -oE "^  \[C[0-9]+\] [^ ]+" | awk '{print $2}' | sort -u | tr '\n' ',' | sed 's/,$//')
  echo -e "$name\t$prop\t$code\t$sigs" >> $out
done
git status --porcelain --untracked-files=no | head -2
echo done
