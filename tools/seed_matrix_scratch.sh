#!/bin/bash
# Runs every curated seeded change against the quick (or $1) check of the property it breaks, in
# scratch worktrees (never touches /repo), 4 at a time. Writes /verif/seeded/RESULTS.tsv.
# usage: seed_matrix_scratch.sh [tier] [glob of seed dirs, default C*] [output file]
tier=${1:-quick}; pat=${2:-C*}; out=${3:-/verif/seeded/RESULTS.tsv}; tmp=$(mktemp -d)
ls -d /verif/seeded/$pat/ | sort > $tmp/all
run_slot() {
  slot=$1
  awk -v s=$slot 'NR%4==s' $tmp/all | while read d; do
    name=$(basename $d); prop=$(python3 -c "import json;print(json.load(open('$d/meta.json'))['property'])")
    log=$(SLOT=$slot /verif/tools/try_seed_scratch.sh $d/patch.diff $tier $prop 2>&1)
    code=$(echo "$log" | grep -oE "exit=[0-9]+" | head -1 | cut -d= -f2)
    sigs=$(echo "$log" | grep -oE "^  \[C[0-9]+\] [^ ]+" | awk '{print $2}' | sed 's/:$//' | sort -u | tr '\n' ',' | sed 's/,$//')
    echo -e "$name\t$prop\t${code:-ERR}\t$sigs" >> $tmp/res.$slot
  done
}
for s in 0 1 2 3; do run_slot $s & done; wait
cat $tmp/res.* | sort > $out; rm -rf $tmp
awk -F'\t' '$3!=1' $out
echo "seeds: $(wc -l < $out)  reported(exit 1): $(awk -F'\t' '$3==1' $out | wc -l)"
