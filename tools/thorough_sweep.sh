#!/bin/bash
# usage: tools/thorough_sweep.sh <outdir> [ids...]  — runs thorough tiers with the binary built in /verif/.build,
# evidence and replays redirected to <outdir> (so /verif/evidence is not touched). For background timing runs.
out="$1"; shift; mkdir -p "$out/ev" "$out/rp"
ids="${@:-01 02 03 04 05 06 07 08 09 10 11 12 13 14 15 16 17 18 19 20}"
cp /verif/.build/harness/release/bverif "$out/bverif" || exit 2
for i in $ids; do
  s=$(date +%s)
  VERIF_EVIDENCE_DIR=$out/ev VERIF_REPLAY_DIR=$out/rp "$out/bverif" C$i thorough > "$out/C$i.log" 2>&1; rc=$?
  echo "C$i rc=$rc t=$(( $(date +%s) - s ))s viol=$(grep -c VIOLATION "$out/C$i.log") exh=$(jq -c '.coverage.exhaustive' "$out/ev/C$i.json" 2>/dev/null)"
done
