#!/bin/bash
# usage: tools/try_seed.sh <patch.diff> <tier> <property>...   — apply a seeded change to /repo, run checks, revert.
patch="$1"; tier="$2"; shift 2
cd /repo || exit 2
if [ -n "$(git status --porcelain --untracked-files=no)" ]; then echo "/repo dirty, refusing"; exit 2; fi
if ! git apply "$patch" 2>/tmp/apply.err; then echo "PATCH DOES NOT APPLY"; cat /tmp/apply.err; exit 3; fi
trap 'cd /repo && git checkout HEAD -- . && git status --porcelain --untracked-files=no | head' EXIT
export VERIF_REPLAY_DIR=/tmp/seed-replays VERIF_EVIDENCE_DIR=/tmp/seed-evidence
for p in "$@"; do
  out=$(cd /verif && ./check "$p" "$tier" 2>&1); code=$?
  echo "== $p exit=$code"; echo "$out" | grep -E "VIOLATION|KNOWN|MACHINERY|\[C[0-9]+\]" | head -6
done
