#!/bin/bash
# usage: tools/try_seed_scratch.sh <patch.diff|none> <tier> <property>...
# Runs checks against a seeded change WITHOUT touching /repo: the patch is applied to the scratch
# worktree /tmp/wt/seedrun (at /repo's HEAD), a copy of the harness is pointed at it
# (path dependencies rewritten) and built into /tmp/seedrun/build. Evidence/replays go to /tmp/seedrun.
# SLOT=<n> selects an independent scratch area so that several can run side by side.
# Used while other runs are using /repo; the curated matrix (seed_matrix.sh) runs against /repo itself.
patch="$1"; tier="$2"; shift 2
SLOT="${SLOT:-0}"; wt=/tmp/wt/seedrun$SLOT; S=/tmp/seedrun$SLOT
export CARGO_NET_OFFLINE=true
mkdir -p $S/build
[ -d $wt ] || git -C /repo worktree add --detach $wt HEAD -q || exit 2
cd $wt || exit 2
git checkout -q --detach "$(git -C /repo rev-parse HEAD)" 2>/dev/null
git checkout -q HEAD -- . ; git clean -fdq -e target
if [ "$patch" != none ]; then
  if ! git apply "$patch" 2>$S/apply.err; then echo "PATCH DOES NOT APPLY"; cat $S/apply.err; exit 3; fi
fi
rsync -a --delete --exclude target "${HARNESS_SRC:-/verif/harness}/" $S/harness/
sed -i "s#/repo/crates#$wt/crates#g" $S/harness/Cargo.toml
grep -q 'bourse_verif_repo' $S/harness/build.rs 2>/dev/null
sed -i "s#\"/repo/#\"$wt/#g" $S/harness/build.rs
( cd $S/harness && CARGO_TARGET_DIR=$S/build/harness cargo build --release --offline -q 2> $S/build.log ) || { echo "HARNESS BUILD FAILED"; tail -20 $S/build.log; git checkout -q HEAD -- .; exit 2; }
export VERIF_REPLAY_DIR=$S/replays VERIF_EVIDENCE_DIR=$S/evidence VERIF_REPO=$wt VERIF_BUILD=$S/build
for p in "$@"; do
  if [ "$p" = C18 ] || [ "$p" = C19 ]; then /verif/py/build_ext.sh || { echo "EXT BUILD FAILED"; continue; }; fi
  s=$(date +%s)
  out=$(cd /verif && $S/build/harness/release/bverif "$p" "$tier" 2>&1); code=$?
  echo "== $p $tier exit=$code $(( $(date +%s) - s ))s"; echo "$out" | grep -E "VIOLATION|KNOWN|MACHINERY|^  \[C[0-9]+\]" | cut -c1-300 | head -8
done
cd $wt && git checkout -q HEAD -- . && git clean -fdq -e target
