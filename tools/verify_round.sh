#!/bin/bash
# usage: tools/verify_round.sh <seeds-root> [slots]   — verifies every <root>/Cxx/{a,b} (patch.diff + demo.rs|demo.py)
# in scratch worktrees /tmp/wt/verify<slot> at /repo HEAD: demo green on the clean tree, pinned suite green with the
# patch, demo red with the patch. Writes <root>/VERIFY.txt. Worktrees are removed afterwards.
root="$1"; slots="${2:-4}"; export CARGO_NET_OFFLINE=true
export PYO3_PYTHON="$(readlink -f "$(command -v python3-vt)")"
ls -d $root/C*/[ab] | sort > $root/.all
one() {
  d="$1"; wt="$2"
  cd $wt || return
  git checkout -q HEAD -- . ; git clean -fdq -e target -e target-py
  if [ -f "$d/demo.py" ]; then
    CARGO_TARGET_DIR=$wt/target-py cargo build -p bourse --release --offline -q 2>/dev/null; cp $wt/target-py/release/libbourse.so $wt/clean.so
    python3-vt "$d/demo.py" $wt/clean.so > $d/v_clean.log 2>&1; a="exit=$?"
  else
    if grep -q "step_sim" <(head -5 "$d/demo.rs"); then tdir=crates/step_sim/tests; pkg=bourse-de; else tdir=crates/order_book/tests; pkg=bourse-book; fi
    mkdir -p $tdir; cp "$d/demo.rs" $tdir/seed_demo.rs
    a=$(cargo test -p $pkg --test seed_demo --offline 2>&1 | tee $d/v_clean.log | grep -E "^test result" | head -1)
    rm -f $tdir/seed_demo.rs
  fi
  if ! git apply "$d/patch.diff" 2>$d/v_apply.err && ! git apply -3 "$d/patch.diff" 2>>$d/v_apply.err; then echo "SUMMARY $d: PATCH-DOES-NOT-APPLY"; git checkout -q HEAD -- .; git clean -fdq -e target -e target-py; return; fi
  git reset -q
  suite=$(cargo test --workspace --no-fail-fast --offline 2>&1 | grep -E "^test result" | awk '{p+=$4; f+=$6} END {print p" passed "f" failed"}')
  if [ -f "$d/demo.py" ]; then
    CARGO_TARGET_DIR=$wt/target-py cargo build -p bourse --release --offline -q 2>/dev/null; cp $wt/target-py/release/libbourse.so $wt/patched.so
    python3-vt "$d/demo.py" $wt/patched.so > $d/v_patched.log 2>&1; b="exit=$? $(tail -1 $d/v_patched.log | cut -c1-150)"
  else
    mkdir -p $tdir; cp "$d/demo.rs" $tdir/seed_demo.rs
    b=$(cargo test -p $pkg --test seed_demo --offline 2>&1 | tee $d/v_patched.log | grep -E "^test result" | head -1)
  fi
  git checkout -q HEAD -- . ; git clean -fdq -e target -e target-py
  echo "SUMMARY $d: demo-clean=[${a}] suite-with-patch=[${suite}] demo-patched=[${b}]"
}
slot() {
  s=$1; wt=/tmp/wt/verify$s
  [ -d $wt ] || git -C /repo worktree add --detach $wt HEAD -q
  ( cd $wt && git checkout -q --detach "$(git -C /repo rev-parse HEAD)" )
  awk -v s=$s -v n=$slots 'NR%n==s' $root/.all | while read d; do one "$d" $wt; done > $root/.res.$s 2>&1
  git -C /repo worktree remove --force $wt
}
for s in $(seq 0 $((slots-1))); do slot $s & done; wait
cat $root/.res.* | grep SUMMARY | sort > $root/VERIFY.txt; rm -f $root/.res.* $root/.all
cat $root/VERIFY.txt
