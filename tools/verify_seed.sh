#!/bin/bash
# usage: tools/verify_seed.sh <dir with patch.diff + demo.rs>
# Confirms in the scratch worktree /tmp/wt/verify (at /repo's HEAD): demo passes without the patch,
# full suite passes with the patch, demo fails with the patch. Prints one summary line.
d="$1"; wt=/tmp/wt/verify
export CARGO_NET_OFFLINE=true
cd $wt || exit 2
git checkout -q HEAD -- . ; git clean -fdq -e target
if grep -q "step_sim" <(head -5 "$d/demo.rs"); then tdir=crates/step_sim/tests; pkg=bourse-de; else tdir=crates/order_book/tests; pkg=bourse-book; fi
mkdir -p $tdir; cp "$d/demo.rs" $tdir/seed_demo.rs
a=$(cargo test -p $pkg --test seed_demo --offline 2>&1 | grep -E "^test result" | head -1)
if ! git apply "$d/patch.diff" 2>/tmp/verify-apply.err; then echo "SUMMARY $d: PATCH-DOES-NOT-APPLY"; git checkout -q HEAD -- .; git clean -fdq -e target; exit 3; fi
mv $tdir/seed_demo.rs /tmp/seed_demo.rs.$$
suite=$(cargo test --workspace --no-fail-fast --offline 2>&1 | grep -E "^test result" | awk '{p+=$4; f+=$6} END {print p" passed "f" failed"}')
mv /tmp/seed_demo.rs.$$ $tdir/seed_demo.rs
b=$(cargo test -p $pkg --test seed_demo --offline 2>&1 | grep -E "^test result" | head -1)
git checkout -q HEAD -- . ; git clean -fdq -e target
echo "SUMMARY $d: demo-clean=[${a}] suite-with-patch=[${suite}] demo-patched=[${b}]"
