#!/bin/bash
# usage: tools/verify_seed_py.sh <dir with patch.diff + demo.py>   (Python-binding seeds)
d="$1"; wt=/tmp/wt/verify
export CARGO_NET_OFFLINE=true PYO3_PYTHON="$(readlink -f "$(command -v python3-vt)")"
cd $wt || exit 2
git checkout -q HEAD -- . ; git clean -fdq -e target -e target-py
build() { CARGO_TARGET_DIR=$wt/target-py cargo build -p bourse --release --offline -q 2>/tmp/verify-py-build.log || { echo BUILD-FAILED; tail -5 /tmp/verify-py-build.log; }; }
build; cp $wt/target-py/release/libbourse.so /tmp/verify-clean.so
a=$(cd $wt && python3-vt "$d/demo.py" /tmp/verify-clean.so >/tmp/verify-demo-clean.log 2>&1; echo $?)
if ! git apply "$d/patch.diff" 2>/tmp/verify-apply.err; then echo "SUMMARY $d: PATCH-DOES-NOT-APPLY"; git checkout -q HEAD -- .; exit 3; fi
suite=$(cargo test --workspace --no-fail-fast --offline 2>&1 | grep -E "^test result" | awk '{p+=$4; f+=$6} END {print p" passed "f" failed"}')
build; cp $wt/target-py/release/libbourse.so /tmp/verify-patched.so
b=$(cd $wt && python3-vt "$d/demo.py" /tmp/verify-patched.so >/tmp/verify-demo-patched.log 2>&1; echo $?)
msg=$(tail -1 /tmp/verify-demo-patched.log | cut -c1-200)
git checkout -q HEAD -- . ; git clean -fdq -e target -e target-py
echo "SUMMARY $d: demo-clean-exit=$a suite-with-patch=[${suite}] demo-patched-exit=$b ($msg)"
